#!/venv/bin/python
"""Re-run the checks against every filed seeded change and write seeded/STATUS.json + STATUS.md.

  tools/seed_matrix.py [--only C07,C13] [--jobs 4] [--tier quick|thorough]

For every seeded/<id>/patch.diff: scratch copy of /repo/canopen under /var/tmp, patch applied there (never in /repo),
then the checks in this order until one reports a violation: the seeded property's own check, every check that caught
the change in an earlier run (meta.json history), then the related checks of the same protocol family.  Quick tier
first, thorough tier of the own check last.  Nothing here decides anything about /repo; it only measures what the
checks catch.
"""
import argparse
import concurrent.futures
import glob
import json
import os
import shutil
import subprocess
import time

ROOT = os.path.dirname(os.path.dirname(os.path.abspath(__file__)))
FAMILY = {
    "C01": ["C07", "C02", "C03"], "C02": ["C03", "C06", "C07"], "C03": ["C02", "C07", "C01", "C06", "C10", "C04"], "C04": ["C20", "C03"],
    "C05": ["C15", "C20", "C09"], "C06": ["C02", "C07"], "C07": ["C01", "C13", "C12"], "C08": ["C14"], "C09": ["C05", "C15"],
    "C10": ["C15", "C11"], "C11": ["C17", "C10"], "C12": ["C07"], "C13": ["C07"], "C14": ["C08"], "C15": ["C05", "C10", "C17"],
    "C16": [], "C17": ["C11", "C15"], "C18": [], "C19": ["C15", "C09"], "C20": ["C05", "C04"],
}


def sh(cmd, env=None, timeout=7200):
    p = subprocess.run(cmd, env=env, capture_output=True, text=True, timeout=timeout)
    return p.returncode, p.stdout + p.stderr


def one(dest, tiers):
    sid = os.path.basename(dest)
    pid = sid.split("-")[0]
    meta = json.load(open(os.path.join(dest, "meta.json")))
    if meta.get("superseded"):
        return sid, {"verdict": "SUPERSEDED", "note": meta["superseded"][:200]}
    d = f"/var/tmp/seedmatrix/{sid}"
    shutil.rmtree(d, ignore_errors=True)
    os.makedirs(d)
    try:
        shutil.copytree("/repo/canopen", d + "/canopen")
        pr = subprocess.run(["patch", "-p1", "--no-backup-if-mismatch", "-i", os.path.join(dest, "patch.diff")], cwd=d, capture_output=True, text=True)
        rc, out = pr.returncode, pr.stdout + pr.stderr
        if rc != 0:
            return sid, {"verdict": "PATCH-DOES-NOT-APPLY", "note": out[-200:]}
        earlier = []
        for h in [meta] + list(meta.get("history", [])):
            chk = h.get("checks")
            if isinstance(chk, dict):
                earlier += [k.split(":")[0] for k, v in chk.items() if isinstance(v, dict) and v.get("caught")]
        order = []
        for c in [pid] + earlier + FAMILY.get(pid, []):
            if c not in order:
                order.append(c)
        plan = [(c, "quick") for c in order]
        if "thorough" in tiers:
            plan.append((pid, "thorough"))
        tried = {}
        for chk, tier in plan:
            t0 = time.time()
            rc_c, out_c = sh([os.path.join(ROOT, "check"), chk, "--tier", tier, "--no-evidence"], env=dict(os.environ, CANOPEN_REPO=d))
            mechs = [ln.strip() for ln in out_c.splitlines() if ln.strip().startswith("mechanism=")]
            tried[f"{chk}:{tier}"] = {"exit": rc_c, "caught": rc_c == 1, "mechanisms": mechs[:4], "wall_s": round(time.time() - t0, 1)}
            if rc_c == 1:
                return sid, {"verdict": "CAUGHT", "caught_by": f"{chk}:{tier}", "mechanism": mechs[0] if mechs else "", "tried": tried}
        return sid, {"verdict": "MISSED", "tried": tried}
    finally:
        shutil.rmtree(d, ignore_errors=True)


def main():
    ap = argparse.ArgumentParser()
    ap.add_argument("--only", default="")
    ap.add_argument("--jobs", type=int, default=4)
    ap.add_argument("--tier", default="thorough", help="'quick': never fall back to the thorough tier")
    a = ap.parse_args()
    only = [x for x in a.only.split(",") if x]
    dests = [d for d in sorted(glob.glob(os.path.join(ROOT, "seeded", "C*-*"))) if os.path.isdir(d)
             and (not only or os.path.basename(d).split("-")[0] in only or os.path.basename(d) in only)]
    status_path = os.path.join(ROOT, "seeded", "STATUS.json")
    status = json.load(open(status_path)) if os.path.exists(status_path) else {}
    tiers = ("quick", "thorough") if a.tier == "thorough" else ("quick",)
    with concurrent.futures.ThreadPoolExecutor(a.jobs) as ex:
        for sid, res in ex.map(lambda d: one(d, tiers), dests):
            res["repo_head"] = subprocess.run(["git", "-C", "/repo", "rev-parse", "--short", "HEAD"], capture_output=True, text=True).stdout.strip()
            status[sid] = res
            print(sid, res["verdict"], res.get("caught_by", ""), res.get("mechanism", "")[:90], flush=True)
            mp = os.path.join(ROOT, "seeded", sid, "meta.json")
            meta = json.load(open(mp))
            meta["verdict"], meta["caught_by"] = res["verdict"], res.get("caught_by")
            json.dump(meta, open(mp, "w"), indent=1)
            json.dump(status, open(status_path, "w"), indent=1, sort_keys=True)
    lines = ["| seed | verdict | caught by | first mechanism |", "|---|---|---|---|"]
    for sid in sorted(status):
        r = status[sid]
        lines.append(f"| {sid} | {r['verdict']} | {r.get('caught_by', '')} | {r.get('mechanism', '').replace('mechanism=', '')[:100]} |")
    open(os.path.join(ROOT, "seeded", "STATUS.md"), "w").write("\n".join(lines) + "\n")
    missed = [s for s in status if status[s]["verdict"] not in ("CAUGHT", "SUPERSEDED")]
    print(f"{len(status)} seeds, {len(missed)} not caught: {missed}")
    if os.path.isdir("/var/tmp/seedmatrix") and not os.listdir("/var/tmp/seedmatrix"):
        shutil.rmtree("/var/tmp/seedmatrix", ignore_errors=True)


if __name__ == "__main__":
    main()
