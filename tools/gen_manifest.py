#!/venv/bin/python
"""Regenerates MANIFEST.json from the table below (single source of truth)."""
import json
import os
import subprocess

ROOT = os.path.dirname(os.path.dirname(os.path.abspath(__file__)))

# id -> (category, technique, level text, level note, design ref)
CHECKS = {
    "C04": ("exploration",
            "runtime contracts (record-only wrappers on ODVariable.encode_raw/decode_raw/__len__) judged by an independent reference codec; exhaustive 8/16-bit sweep + boundary/random inputs",
            "Every call of the real codec made by the workload is judged by an independent reference codec: all values and byte patterns of the 8/16-bit types exhaustively, boundary and seeded random values of wider types, out-of-range values, wrong-length byte strings 0..9, REAL specials, ASCII/BMP strings. Held = no call disagreed with the reference on the inputs listed in the evidence.",
            "Trusted: Python int.to_bytes/from_bytes and struct (IEEE 754) as reference; inputs beyond those generated are not covered.",
            "DESIGN.md section 4, C04"),
}

NOT_BUILT_REASON = "check not built yet in this round (build in progress; see DESIGN.md section 4 for its design)"


def all_ids():
    ids = []
    with open(os.path.join(ROOT, "properties.jsonl")) as fh:
        for line in fh:
            if line.strip():
                ids.append(json.loads(line)["id"])
    return ids


def main():
    checks = []
    for pid in sorted(CHECKS):
        cat, tech, text, note, ref = CHECKS[pid]
        checks.append({
            "property_id": pid,
            "quick_cmd": f"./check {pid} --tier quick",
            "thorough_cmd": f"./check {pid} --tier thorough",
            "evidence_file": f"/verif/evidence/{pid}.json",
            "replay_cmd_template": f"./check {pid} --replay {{path}}",
            "engine": "canmon",
            "level_claimed": {"category": cat, "text": text, "design_ref": ref},
            "level_note": note,
            "technique": tech,
        })
    na = [{"property_id": pid, "reason": NOT_BUILT_REASON} for pid in all_ids() if pid not in CHECKS]
    try:
        fixes = subprocess.run(["git", "-C", "/repo", "log", "--format=%h %s", "--grep=^fix:"],
                               capture_output=True, text=True).stdout.strip().splitlines()
    except Exception:  # noqa: BLE001
        fixes = []
    manifest = {
        "version": 1,
        "setup_cmd": "./setup.sh",
        "hooks": {
            "guard": "CANOPEN_VERIF",
            "enable": "no source hooks exist: checks import /repo's working tree directly (PYTHONPATH=/repo) and observe it at its documented boundaries (duck-typed bus, Network.notify, public attributes, class-attribute wrappers installed from the harness); ./check exports CANOPEN_VERIF=1 for uniformity but the library never reads it",
            "baseline_off_cmd": "cd /repo && /venv/bin/python -m pytest -ra -q -p no:cacheprovider --timeout=900 --continue-on-collection-errors",
            "source_commits": [],
            "add_only": True,
        },
        "engines": [{
            "name": "canmon",
            "path": "/verif/canmon",
            "serves_properties": sorted(CHECKS),
            "kind_free_text": "runtime monitoring: simulated CAN bus tap + fault plan, independent reference models (stdlib only), wire monitors, record-only contracts, history checkers, seeded schedule perturbation",
        }],
        "checks": checks,
        "not_applicable": na,
        "notes": "Genuine defects repaired in /repo as 'fix:' commits: " + ("; ".join(fixes) if fixes else "none yet")
                 + ". See known_findings.json and DESIGN.md section 5.",
    }
    with open(os.path.join(ROOT, "MANIFEST.json"), "w") as fh:
        json.dump(manifest, fh, indent=1)
        fh.write("\n")
    print("MANIFEST.json:", len(checks), "checks,", len(na), "not applicable")


if __name__ == "__main__":
    main()
