#!/venv/bin/python
"""Regenerates MANIFEST.json from the table below (single source of truth)."""
import json
import os
import subprocess

ROOT = os.path.dirname(os.path.dirname(os.path.abspath(__file__)))

# id -> (category, technique, level text, level note, design ref)
CHECKS = {
    "C04": ("exploration",
            "runtime contracts (record-only wrappers on ODVariable.encode_raw/decode_raw/__len__) judged by an independent reference codec; exhaustive 8/16-bit sweep + boundary/random inputs",
            "Every call of the real codec made by the workload is judged by an independent reference codec: all values and byte patterns of the 8/16-bit types exhaustively, boundary and seeded random values of wider types, out-of-range values, wrong-length byte strings 0..9, REAL specials, ASCII/BMP strings. Held = no call disagreed with the reference on the inputs listed in the evidence.",
            "Trusted: Python int.to_bytes/from_bytes and struct (IEEE 754) as reference; inputs beyond those generated are not covered.",
            "DESIGN.md section 4, C04"),
    "C01": ("exploration",
            "real SdoClient against a strict reference SDO server on a simulated bus: client-side wire monitor (every request frame validated for its protocol step) + store/returned-bytes comparison over generated transfers",
            "Every client frame of every generated transfer (lengths 0..64 exhaustive, boundary lengths up to 70000, declared/undeclared size, forced segmentation, 5 buffering modes, 5 chunkings, 6 server response styles plus servers that fill upload segments only partly or not at all, python-can-style and buffer-reusing back ends, boundary and random multiplexers, shuffled back-to-back history on one client) and every abort frame the client emits when it abandons a transfer (time-out at every step of all six transfer kinds, SdoClient.abort()) is validated by an independent CiA 301 server model, and the committed / returned bytes are compared with the payload. Held = no illegal frame and no byte difference in the transfers listed in the evidence.",
            "Trusted: the reference server's transcription of CiA 301 7.2.4; inline delivery (no timing); expedited writes are offered whole values (API design).",
            "DESIGN.md section 4, C01"),
    "C05": ("exploration",
            "runtime contracts with OLD-frame snapshot on PdoVariable.get_data/set_data judged by an independent bit-field model, plus typed read-back at the API; generated layouts forcing every bit offset x type",
            "Every read and write of a mapped variable performed by the workload (all 64 bit offsets x every integer type, BOOLEAN, REAL32/64, sub-byte fields, all 2^len values for short fields, three initial frame contents and contents arriving through the reception handler; mappings built by add_variable, by name and by read() incl. record members) is compared bit for bit with a reference model of the frame as one little-endian integer. Held = no access disagreed.",
            "Trusted: reference bit arithmetic; layouts beyond those generated are not covered.",
            "DESIGN.md section 4, C05"),
    "C07": ("fault_enumeration",
            "fault plan on the simulated bus: every response frame of every transfer kind x every disturbance kind, outcome classification + abort-on-wire monitor + undisturbed follow-up transfers",
            "For expedited, segmented and block transfers in both directions (reference server, for block upload also in a style without CRC and size announcement; real SdoServer for expedited/segmented) every response frame is disturbed once by each kind (lost, lost and delivered late, request lost - each also with MAX_RETRIES = 2 -, replaced by abort, toggle, specifier, multiplexer, duplicated, stale frames queued / in between / before) and the call must return exactly the right data or raise an SDO communication/abort error, emit the time-out abort after a loss, and leave client and server able to complete a follow-up upload and download.",
            "Trusted: reference server; stale frames that are legal for the current step (incl. any abort frame) are indistinguishable by protocol and not generated; wall clock only creates the injected time-outs.",
            "DESIGN.md section 4, C07"),
    "C12": ("fault_enumeration",
            "real block-download client against a reference block server with changing block sizes; every single segment loss position, lost acknowledges, multi-loss; store comparison + wire validation + loss classification",
            "Undisturbed block downloads (lengths 1..64 exhaustive and block/segment boundaries, 8 block-size sequences, CRC on/off, 3 write styles) must commit exactly the payload with conformant sequence numbers, last flag, n and CRC; every single lost segment position of representative transfers must be repaired when the server can detect it, and no disturbed transfer may return normally with a different commit.",
            "Trusted: reference server without timers (a lost last segment of a sub-block is undetectable for it and falls in the may-fail class).",
            "DESIGN.md section 4, C12"),
    "C13": ("fault_enumeration",
            "real block-upload client against a reference block-upload server; every single lost / bit-flipped / duplicated segment, wrong CRC, wrong or lost end/initiate frames; returned-bytes comparison",
            "Undisturbed block uploads (lengths 1..64 exhaustive and boundaries, 6 client block sizes, CRC requested/supported or not, 3 read styles) must return exactly the server's value and close the transfer; with CRC negotiated every injected fault must end in an SdoError or in exactly the server's value.",
            "Trusted: reference server; faults without CRC are recorded as observations only (the property promises nothing there).",
            "DESIGN.md section 4, C13"),
    "C02": ("exploration",
            "real SdoServer driven through Network.notify by a strict reference SDO client: server-side wire monitor (every response validated), value-source precedence matrix, store/callback comparison, garbage-frame histories from fresh nodes with a never-raises/one-response monitor",
            "Every response of the real server to generated valid transfers and to arbitrary 1..8-byte frames is validated by an independent CiA 301 client model; uploaded bytes are compared with the reference encoding of the value chosen by the precedence rule (lengths 0..64 exhaustive), downloads with data_store, write-callback arguments and a following upload; an exception escaping notify() or a missing/extra response is a violation.",
            "Trusted: reference client transcription of CiA 301; 0-byte frames and malformed short abort frames are not judged.",
            "DESIGN.md section 4, C02"),
    "C03": ("exploration",
            "end-to-end typed round trips judged by the reference codec under three delivery modes (inline, seeded threaded bus with sys.monitoring yield/delay injection, python-can virtual bus with real Notifier threads) plus a fragile-driver mode; per-thread unique values as history oracle",
            "All values of 8/16-bit types (thorough), boundary/random values of wider types, REAL specials, strings and blobs 0..200 bytes are written through the remote accessor (by index, name, dotted name) and read back from both sides; LocalNode.data_store must hold the CiA 301 encoding. 1..8 concurrent client threads on distinct nodes with unrelated noise traffic must never observe a foreign value, lose a response, or overlap sends on the shared bus object.",
            "Schedules are sampled (seeded delays, injected yields), not enumerated; evidence lists interleaving signatures and injection counts.",
            "DESIGN.md section 4, C03"),
    "C06": ("exploration",
            "refusal matrix against the real SdoServer judged by accepted-code sets, multiplexer echo, store snapshot comparison and callback silence (reference client), repeated through the real client; abort-code decoding with codes injected by the reference server at every protocol step",
            "Every refusal kind of the property on generated dictionaries (all access types, numeric types x payload lengths 0..9, expedited and segmented, before/between/after successful transfers) must yield exactly one abort frame with an accepted CiA 301 code and the transfer's multiplexer, leave data_store deep-equal and call no write callback; the real client must raise SdoAbortedError with exactly the code on the wire, for documented, boundary and random 32-bit codes at every step of all six transfer kinds, and must not continue an aborted transfer.",
            "Accepted code sets are listed in the check; the multiplexer of an abort answering ccs=7 is not judged.",
            "DESIGN.md section 4, C06"),
    "C10": ("exploration",
            "operation histories on a real Network compared step by step with a reference multimap (invocation log of instrumented callbacks, node handlers judged by observable effects); exhaustive sweep of all 2048 standard ids for frame format and scanner",
            "Random histories of subscribe / unsubscribe / node add, replace, remove / received frames (via notify and via the listener with error and remote flags, timestamps incl. 0.0) must invoke exactly the callbacks subscribed at that moment, once, in order, with the frame's id/data/timestamp; removed nodes must stay untouched and silent; every outgoing frame (send_message, send_periodic) must carry the given id/data/remote flag and use the extended format exactly above 0x7FF; the scanner must list exactly the predefined-connection-set ids.",
            "Callbacks that (un)subscribe during dispatch and PDO handlers after node removal are outside the property.",
            "DESIGN.md section 4, C10"),
    "C11": ("exploration",
            "four views (sending master, broadcast master, slave, observer on a third network) compared after every step with per-view reference models of the NMT machine; exhaustive command sequences; NMT wire monitor; instrumented-condition waits",
            "All command sequences up to length 3 (quick) / 4 (thorough) over 7 defined + 4 undefined specifiers x {own, 0, other}, random histories with API commands, valid/invalid state names, all 256 heartbeat bytes and boot-ups: every view must report the state the CiA 301 machine assigns to what that view can hear, every frame on id 0 must be exactly [cs, node], invalid names raise ValueError and send nothing, nothing escapes the receive path; waits return on the matching message and raise NmtError otherwise (also when a message arrived before the wait started).",
            "No loopback: a network does not hear its own frames, so each view has its own model; time-outs are bounded (30 ms).",
            "DESIGN.md section 4, C11"),
    "C16": ("exploration",
            "reference model of log / active / callback order compared after every frame (external station and real producer, inline and threaded delivery with yield injection); exhaustive description check of all 65536 codes; instrumented-condition waits",
            "Random EMCY histories with consumer resets: log, active list and callback invocations must equal the model after every frame; producer frames must decode to the same code/register/zero-padded data; every code maps to its CiA 301 class description; wait() returns the next (matching) entry and None on time-out, also when a frame arrived before the wait.",
            "Descriptions compared by class keyword; undefined high bytes may map to '' or to their 4-bit class text.",
            "DESIGN.md section 4, C16"),
    "C17": ("exploration",
            "live cyclic-task table of the simulated bus compared with a reference model after every API call, on three task flavours (modified in place by reference, kernel copy with modify_data, fixed at start); tick() compares what is transmitted",
            "Random call sequences over the SYNC producer, two PDO maps, the heartbeat producer (0x1017 written locally and over the bus, NMT state changes from slave and master) and node guarding: after every call there is at most one live task per producer with exactly the expected id, payload, period and remote flag; none after stop / heartbeat time 0; no PDO task is live when disconnect() shuts the bus down.",
            "The harness never mutates PdoMap.data behind the API; period equality is exact.",
            "DESIGN.md section 4, C17"),
    "C09": ("exploration",
            "write-log ordering predicates on a reference PDO device with strict CiA 301 write rules + read-back comparison into a fresh node on another station + Network.subscribers inspection",
            "Generated PDO configurations (RPDO/TPDO, PDO numbers 1..512, 11/29-bit COB-IDs, flags, all transmission types, optional sub-entries present/absent, 0..8 mapped objects, configuration taken programmatically, from the live device or from the dictionary) are saved to a device that starts enabled with another mapping and refuses out-of-order writes: the log must show invalidate first, count zeroed before entries, exact entry words, count after entries, validation last and only if enabled; a fresh node reading the device back must see the same configuration and be subscribed iff enabled.",
            "Devices with a read-only mapping count and bit 29 of the COB-ID entry are outside the property.",
            "DESIGN.md section 4, C09"),
    "C15": ("exploration",
            "producer/consumer node pairs (all four Local/Remote pairings) on a simulated bus: frame-on-wire monitor, consumer variable / timestamp / callback / unchanged-map comparison after every produced frame, RTR monitor, instrumented-condition waiter with lost-wake-up detection; PDO bit-field contracts attached as ambient monitors",
            "Histories of assign / transmit / periodic tick / reconfigure / re-address / re-subscribe / remote request / foreign frames over generated layouts and consumer maps with distinct, colliding and disabled COB-IDs: the frame carries exactly COB-ID and data, every listening map reads the produced values with the frame's timestamp, every callback runs once, no other map changes, RTR is sent iff enabled and allowed, and a reader blocked in wait_for_reception is woken with the timestamp (None when nothing arrives).",
            "The consumer does not write into received maps; a map with a running periodic task ignores reception by design.",
            "DESIGN.md section 4, C15"),
    "C18": ("exploration",
            "real LssMaster against a reference CiA 305 slave: identity equality over single-bit, complement and random 128-bit identities, LSS wire monitor on every request, reply-fault injection (every error code, wrong specifier, dropped, duplicated, late), virtualised pacing sleeps",
            "fast_scan must return exactly the slave's identity and leave it in configuration state (every single bit set alone / cleared alone in thorough), (False, None) without an unconfigured slave; inquire/configure/store must return the slave's answer or raise LssError for every non-zero error code, wrong specifier or silence; selective switch is confirmed only for the right identity; every request is a full 8-byte standard frame on 0x7E5 with zero reserved bytes.",
            "canopen.lss.time is replaced by a virtual clock (pacing only); RESPONSE_TIMEOUT 0.5 ms; inline delivery.",
            "DESIGN.md section 4, C18"),
    "C19": ("exploration",
            "exhaustive statusword decode against an own CiA 402 table; BaseNode402 against a reference drive state machine over SDO, event-driven PDO and ticked PDO: controlword log and state-trace predicates; operation-mode matrix over supported-mode masks",
            "All 65536 statuswords must decode to the CiA 402 state; for all 8 x 8 (drive state, target) pairs x automatic-transition delays x extra status bits x transports a commandable target is reached within 12 controlword writes without entering OPERATION ENABLED unless the target is OE/QSA, an uncommandable one is refused with ValueError and no controlword; an unadvertised mode raises TypeError and writes nothing, an advertised one writes its CiA 402 code (SDO and RPDO).",
            "Bounded restatement of 'finitely many steps' (12 writes); time-outs under threaded PDO transport are inconclusive unless the drive log shows the target was reached.",
            "DESIGN.md section 4, C19"),
    "C20": ("exploration",
            "raw value observed behind the accessor (LocalNode.data_store / PdoMap.data, decoded by the reference codec) after every phys / desc / bits assignment through local SDO, remote SDO over the bus and PDO variables; exact rational arithmetic for the scaling predicate",
            "For every integer type and view: phys writes with factors of several magnitudes and both signs store a nearest integer of value/factor and read back within half a step; description writes store exactly the named value and read back the description; every contiguous bit range within min(32, width) bits in five spellings (bit number, list, slice, slice with step, defined name) changes exactly those bits and reads them back.",
            "Field values fit their field; ties may round either way.",
            "DESIGN.md section 4, C20"),
    "C08": ("exploration",
            "generated dictionary models written by an independent EDS/DCF writer with seeded spelling choices, imported by the real importer (StringIO and file path) and compared attribute by attribute with the model",
            "For generated dictionaries (all data/access types, defaults, parameter values, signed limits of every width as two's complement hex or negative decimal, $NODEID-relative values, records, arrays, CompactSubObj arrays with/without name list, DOMAIN object type, missing ObjectType, device info, comments, bit rate, node id explicit / from file / absent, .eds/.dcf) every object, kind, name, sub-index, type, access, PDO flag, default, parameter value, limit, relative flag and device-information field of the import must equal the model, and lookups by index, name and 'Parent.Child' must reach the same object.",
            "Names are unique and free of ';', '#', '.'; octal spellings, sparse name lists and limits on REAL types are not generated.",
            "DESIGN.md section 4, C08"),
    "C14": ("exploration",
            "generated dictionaries (built in code or obtained by import) exported by the real exporter to three destination kinds, re-imported and compared with the model; document equality modulo [FileInfo]",
            "For generated dictionaries in the communication, manufacturer and profile areas the export as EDS or DCF to a file name, an open stream and stdout followed by import must preserve objects, kinds, names, sub-indices, data/access types, PDO flag, defaults (negative ones too), limits, storage locations, factor/unit/description, device information and comments, and for DCF parameter values, bit rate and node id; the three destinations must produce the same document apart from the [FileInfo] time stamps.",
            "ASCII string values without surrounding blanks; limits on REAL types are not generated.",
            "DESIGN.md section 4, C14"),
}

NOT_BUILT_REASON = "check not built yet in this round (build in progress; see DESIGN.md section 4 for its design)"


def all_ids():
    ids = []
    with open(os.path.join(ROOT, "properties.jsonl")) as fh:
        for line in fh:
            if line.strip():
                ids.append(json.loads(line)["id"])
    return ids


def main():
    checks = []
    for pid in sorted(CHECKS):
        cat, tech, text, note, ref = CHECKS[pid]
        checks.append({
            "property_id": pid,
            "quick_cmd": f"./check {pid} --tier quick",
            "thorough_cmd": f"./check {pid} --tier thorough",
            "evidence_file": f"/verif/evidence/{pid}.json",
            "replay_cmd_template": f"./check {pid} --replay {{path}}",
            "engine": "canmon",
            "level_claimed": {"category": cat, "text": text, "design_ref": ref},
            "level_note": note,
            "technique": tech,
        })
    na = [{"property_id": pid, "reason": NOT_BUILT_REASON} for pid in all_ids() if pid not in CHECKS]
    try:
        fixes = subprocess.run(["git", "-C", "/repo", "log", "--format=%h %s", "--grep=^fix:"],
                               capture_output=True, text=True).stdout.strip().splitlines()
    except Exception:  # noqa: BLE001
        fixes = []
    manifest = {
        "version": 1,
        "setup_cmd": "./setup.sh",
        "hooks": {
            "guard": "CANOPEN_VERIF",
            "enable": "no source hooks exist: checks import /repo's working tree directly (PYTHONPATH=/repo) and observe it at its documented boundaries (duck-typed bus, Network.notify, public attributes, class-attribute wrappers installed from the harness); ./check exports CANOPEN_VERIF=1 for uniformity but the library never reads it",
            "baseline_off_cmd": "cd /repo && /venv/bin/python -m pytest -ra -q -p no:cacheprovider --timeout=900 --continue-on-collection-errors",
            "source_commits": [],
            "add_only": True,
        },
        "engines": [{
            "name": "canmon",
            "path": "/verif/canmon",
            "serves_properties": sorted(CHECKS),
            "kind_free_text": "runtime monitoring: simulated CAN bus tap + fault plan, independent reference models (stdlib only), wire monitors, record-only contracts, history checkers, seeded schedule perturbation",
        }],
        "checks": checks,
        "not_applicable": na,
        "notes": "Genuine defects repaired in /repo as 'fix:' commits: " + ("; ".join(fixes) if fixes else "none yet")
                 + ". See known_findings.json and DESIGN.md section 5.",
    }
    with open(os.path.join(ROOT, "MANIFEST.json"), "w") as fh:
        json.dump(manifest, fh, indent=1)
        fh.write("\n")
    print("MANIFEST.json:", len(checks), "checks,", len(na), "not applicable")


if __name__ == "__main__":
    main()
