#!/bin/sh
# Many seeds over the quick tier only (the tier that runs on every change): prints every run that does not exit 0.
# usage: tools/sweep_quick.sh [first_seed [count]]
cd "$(dirname "$0")/.." || exit 2
FIRST="${1:-100}"; COUNT="${2:-20}"
IDS=$(/venv/bin/python -c "import json; print(' '.join(c['property_id'] for c in json.load(open('MANIFEST.json'))['checks']))")
bad=0; seed=$FIRST; last=$((FIRST+COUNT))
while [ "$seed" -lt "$last" ]; do
  for id in $IDS; do
    out=$(VERIF_SEED=$seed timeout 1800 ./check "$id" --tier quick --no-evidence 2>&1); rc=$?
    if [ $rc -ne 0 ]; then bad=$((bad+1)); echo "NONZERO id=$id tier=quick seed=$seed rc=$rc"; printf "%s\n" "$out" | grep -E -A12 "VIOLATION|INCONCLUSIVE|mechanism=|Traceback" | head -30; fi
  done
  echo "done quick seed=$seed bad_so_far=$bad"; seed=$((seed+1))
done
echo "QUICK SWEEP FINISHED nonzero_runs=$bad"
