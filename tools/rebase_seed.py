#!/venv/bin/python
"""Re-create a filed seeded change on top of the current /repo after a repair touched the same lines.

  tools/rebase_seed.py <seed-id> <edit-script.py>

The edit script is executed with TREE set to a scratch copy of /repo (canopen + test); it edits files there.  The
result is confirmed like a fresh seed (repository tests pass with it, demo fails with it and passes on /repo) and, if
confirmed, replaces seeded/<id>/patch.diff (the original is kept as patch.orig.diff).
"""
import json
import os
import shutil
import subprocess
import sys

ROOT = os.path.dirname(os.path.dirname(os.path.abspath(__file__)))
PY = "/venv/bin/python"


def main():
    sid, script = sys.argv[1], sys.argv[2]
    dest = os.path.join(ROOT, "seeded", sid)
    base = "/var/tmp/rebase_seed"
    shutil.rmtree(base, ignore_errors=True)
    for side in ("a", "b"):
        os.makedirs(f"{base}/{side}")
        shutil.copytree("/repo/canopen", f"{base}/{side}/canopen")
    shutil.copytree("/repo/test", f"{base}/b/test")
    try:
        exec(compile(open(script).read(), script, "exec"), {"TREE": f"{base}/b"})
        diff = subprocess.run(["diff", "-ru", "a/canopen", "b/canopen"], cwd=base, capture_output=True, text=True).stdout
        env = dict(os.environ, PYTHONPATH=f"{base}/b", PYTHONDONTWRITEBYTECODE="1")
        t = subprocess.run([PY, "-m", "pytest", "-q", "-p", "no:cacheprovider", "test"], cwd=f"{base}/b", env=env, capture_output=True, text=True)
        shutil.copy(os.path.join(dest, "demo.py"), f"{base}/b/demo_under_test.py")
        for h in os.listdir(dest):
            if h.endswith(".py") and h != "demo.py":
                shutil.copy(os.path.join(dest, h), f"{base}/b/")
        bad = subprocess.run([PY, "demo_under_test.py"], cwd=f"{base}/b", env=env, capture_output=True, text=True, timeout=600)
        os.makedirs(f"{base}/c")
        shutil.copy(os.path.join(dest, "demo.py"), f"{base}/c/demo_under_test.py")
        for h in os.listdir(dest):
            if h.endswith(".py") and h != "demo.py":
                shutil.copy(os.path.join(dest, h), f"{base}/c/")
        good = subprocess.run([PY, "demo_under_test.py"], cwd=f"{base}/c", env=dict(env, PYTHONPATH="/repo"), capture_output=True, text=True, timeout=600)
        ok_bad = bad.returncode != 0 or "FAIL" in bad.stdout + bad.stderr
        ok_good = good.returncode == 0 and "FAIL" not in good.stdout + good.stderr
        print(f"tests rc={t.returncode} ({t.stdout.strip().splitlines()[-1] if t.stdout.strip() else ''}); demo fails with change: {ok_bad}; demo passes on /repo: {ok_good}")
        if t.returncode == 0 and ok_bad and ok_good:
            if not os.path.exists(os.path.join(dest, "patch.orig.diff")):
                shutil.copy(os.path.join(dest, "patch.diff"), os.path.join(dest, "patch.orig.diff"))
            open(os.path.join(dest, "patch.diff"), "w").write(diff)
            meta = json.load(open(os.path.join(dest, "meta.json")))
            head = subprocess.run(["git", "-C", "/repo", "rev-parse", "--short", "HEAD"], capture_output=True, text=True).stdout.strip()
            meta["rebased"] = f"re-created on top of /repo {head} (a repair touched the same lines); same mechanism; original kept as patch.orig.diff; re-confirmed: tests pass, demo fails with it, passes without"
            json.dump(meta, open(os.path.join(dest, "meta.json"), "w"), indent=1)
            print("replaced", os.path.join(dest, "patch.diff"))
            print(diff)
        else:
            print("NOT confirmed; demo output with change:", (bad.stdout + bad.stderr)[-600:], "\non /repo:", (good.stdout + good.stderr)[-300:])
    finally:
        shutil.rmtree(base, ignore_errors=True)


if __name__ == "__main__":
    main()
