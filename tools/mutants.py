#!/venv/bin/python
"""Self-validation of the monitors: apply small realistic breaks to a scratch
copy of /repo/canopen (never to /repo), run the owning property's check against
the copy (CANOPEN_REPO=...), report caught / missed.

  tools/mutants.py [--prop C01] [--tier quick] [--tests] [--only ID]

--tests additionally runs the repository's own test suite on the mutant (a
mutant the suite already kills is not what this machinery is for).
Scratch copies live under /var/tmp/canmon-mut and are removed afterwards.
"""
import argparse
import concurrent.futures
import os
import shutil
import subprocess
import sys

ROOT = os.path.dirname(os.path.dirname(os.path.abspath(__file__)))
sys.path.insert(0, ROOT)
from tools.mutant_list import MUTANTS  # noqa: E402

SCRATCH = "/var/tmp/canmon-mut"


def run_one(m, tier, tests):
    mid, prop, path, old, new = m[:5]
    d = os.path.join(SCRATCH, mid)
    shutil.rmtree(d, ignore_errors=True)
    os.makedirs(d)
    try:
        shutil.copytree("/repo/canopen", os.path.join(d, "canopen"))
        if tests:
            shutil.copytree("/repo/test", os.path.join(d, "test"))
        f = os.path.join(d, path)
        src = open(f).read()
        if src.count(old) < 1:
            return mid, prop, "STALE(pattern not found)", ""
        src = src.replace(old, new, 1)
        open(f, "w").write(src)
        test_res = ""
        if tests:
            p = subprocess.run(["/venv/bin/python", "-m", "pytest", "-q", "-x", "-p", "no:cacheprovider", "test"],
                               cwd=d, capture_output=True, text=True, timeout=600,
                               env=dict(os.environ, PYTHONPATH=d))
            test_res = "tests:" + ("pass" if p.returncode == 0 else "FAIL")
        props = prop.split(",")
        verdicts = []
        for pr in props:
            p = subprocess.run([os.path.join(ROOT, "check"), pr, "--tier", tier, "--no-evidence"],
                               capture_output=True, text=True, timeout=3600,
                               env=dict(os.environ, CANOPEN_REPO=d))
            mech = [ln.strip() for ln in p.stdout.splitlines() if ln.strip().startswith("mechanism=")]
            verdicts.append(f"{pr}:" + ("caught" if p.returncode == 1 else "MISSED" if p.returncode == 0 else f"rc={p.returncode}")
                            + (f" [{mech[0][:90]}]" if mech else ""))
        return mid, prop, " ".join(verdicts), test_res
    finally:
        shutil.rmtree(d, ignore_errors=True)


def main():
    ap = argparse.ArgumentParser()
    ap.add_argument("--prop")
    ap.add_argument("--tier", default="quick")
    ap.add_argument("--tests", action="store_true")
    ap.add_argument("--only")
    ap.add_argument("--jobs", type=int, default=4)
    a = ap.parse_args()
    ms = [m for m in MUTANTS if (not a.prop or a.prop in m[1].split(",")) and (not a.only or m[0] == a.only)]
    with concurrent.futures.ThreadPoolExecutor(a.jobs) as ex:
        for mid, prop, verdict, tests in ex.map(lambda m: run_one(m, a.tier, a.tests), ms):
            print(f"{mid:34s} {verdict} {tests}", flush=True)
    shutil.rmtree(SCRATCH, ignore_errors=True)


if __name__ == "__main__":
    main()
