#!/bin/sh
# Sweep several seeds over both tiers on the unchanged tree; print every run that does not exit 0.
# usage: tools/sweep.sh [tier ...]   (default: quick thorough)
cd "$(dirname "$0")/.." || exit 2
TIERS="${*:-quick thorough}"
IDS=$(/venv/bin/python -c "import json; print(' '.join(c['property_id'] for c in json.load(open('MANIFEST.json'))['checks']))")
bad=0
for tier in $TIERS; do
  for seed in 0 1 2 7 12345; do
    for id in $IDS; do
      out=$(VERIF_SEED=$seed timeout 3600 ./check "$id" --tier "$tier" --no-evidence 2>&1); rc=$?
      if [ $rc -ne 0 ]; then bad=$((bad+1)); echo "NONZERO id=$id tier=$tier seed=$seed rc=$rc"; printf "%s\n" "$out" | grep -E -A12 "VIOLATION|INCONCLUSIVE|mechanism=|Traceback" | head -30; fi
    done
    echo "done tier=$tier seed=$seed bad_so_far=$bad"
  done
done
echo "SWEEP FINISHED nonzero_runs=$bad"
