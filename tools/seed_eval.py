#!/venv/bin/python
"""Confirm and file the seeded breaks produced by the independent sub-agents.

  tools/seed_eval.py C05 [--src /tmp/seed/C05] [--tier quick|thorough] [--keep]

For every patch_k.diff + demo_k.py found in --src:
  1. copy /repo (canopen + test) to a scratch dir under /var/tmp, apply the patch there (never to /repo);
  2. the repository's own test suite must still pass on the patched copy;
  3. the demonstration must FAIL on the patched copy and PASS on /repo;
  4. run the property's check (CANOPEN_REPO=<copy>) - quick first, thorough if quick misses;
  5. file it as /verif/seeded/<PID>-<k>/ {patch.diff, demo.py, meta.json}.
Only changes for which 1-3 are confirmed are kept.
"""
import argparse
import json
import os
import shutil
import subprocess
import sys
import time

ROOT = os.path.dirname(os.path.dirname(os.path.abspath(__file__)))
PY = "/venv/bin/python"


def sh(cmd, cwd=None, env=None, timeout=3600):
    p = subprocess.run(cmd, cwd=cwd, env=env, capture_output=True, text=True, timeout=timeout)
    return p.returncode, (p.stdout + p.stderr)


def recheck(pid, checks, tier):
    """Re-run the checks against seeds already filed (patch.diff in /verif/seeded/<PID>-k)."""
    import glob
    for dest in sorted(glob.glob(os.path.join(ROOT, "seeded", pid + "-*"))):
        d = "/var/tmp/seedeval/" + os.path.basename(dest)
        shutil.rmtree(d, ignore_errors=True)
        os.makedirs(d)
        try:
            shutil.copytree("/repo/canopen", d + "/canopen")
            rc, out = sh(["patch", "-p1", "--no-backup-if-mismatch", "-i", os.path.join(dest, "patch.diff")], cwd=d)
            if rc != 0:
                print(os.path.basename(dest), "patch no longer applies:", out[-200:])
                continue
            meta = json.load(open(os.path.join(dest, "meta.json")))
            results = {}
            for chk in checks:
                for t in ([tier] if tier == "thorough" else ["quick", "thorough"]):
                    t0 = time.time()
                    rc_c, out_c = sh([os.path.join(ROOT, "check"), chk, "--tier", t, "--no-evidence"], env=dict(os.environ, CANOPEN_REPO=d), timeout=7200)
                    mechs = [ln.strip() for ln in out_c.splitlines() if ln.strip().startswith("mechanism=")]
                    results[f"{chk}:{t}"] = {"exit": rc_c, "caught": rc_c == 1, "mechanisms": mechs[:6], "wall_s": round(time.time() - t0, 1)}
                    if rc_c == 1:
                        break
            caught = any(r["caught"] for r in results.values())
            meta.setdefault("history", []).append({"checks": meta.get("checks"), "verdict": meta.get("verdict")})
            meta["checks"], meta["verdict"] = results, "CAUGHT" if caught else "MISSED"
            json.dump(meta, open(os.path.join(dest, "meta.json"), "w"), indent=1)
            print(os.path.basename(dest), meta["verdict"], "; ".join(f"{c}={'caught' if r['caught'] else 'rc%s' % r['exit']} {r['mechanisms'][:1]}" for c, r in results.items()))
        finally:
            shutil.rmtree(d, ignore_errors=True)


def main():
    ap = argparse.ArgumentParser()
    ap.add_argument("pid")
    ap.add_argument("--src")
    ap.add_argument("--checks", help="comma separated property ids to run (default: the seeded property)")
    ap.add_argument("--tier", default="quick")
    ap.add_argument("--tag", default="", help="prefix for the change number, e.g. r2- for the second round")
    ap.add_argument("--recheck", action="store_true", help="re-run the checks on the changes already filed under /verif/seeded")
    a = ap.parse_args()
    pid = a.pid.upper()
    src = a.src or f"/tmp/seed/{pid}"
    checks = (a.checks or pid).split(",")
    notes = open(os.path.join(src, "NOTES.md")).read() if os.path.exists(os.path.join(src, "NOTES.md")) else ""
    if a.recheck:
        return recheck(pid, checks, a.tier)
    for k in (1, 2, 3):
        patch = os.path.join(src, f"patch_{k}.diff")
        demo = os.path.join(src, f"demo_{k}.py")
        if not (os.path.exists(patch) and os.path.exists(demo)):
            continue
        d = f"/var/tmp/seedeval/{pid}-{a.tag}{k}"
        shutil.rmtree(d, ignore_errors=True)
        os.makedirs(d)
        try:
            shutil.copytree("/repo/canopen", d + "/canopen")
            shutil.copytree("/repo/test", d + "/test")
            rc, out = sh(["patch", "-p1", "--no-backup-if-mismatch", "-i", patch], cwd=d)
            if rc != 0:
                print(f"{pid}-{k}: patch does not apply: {out[-300:]}")
                continue
            env = dict(os.environ, PYTHONPATH=d, PYTHONDONTWRITEBYTECODE="1")
            for _attempt in range(3):       # the repository's timing tests (nmt, emcy, periodic) are flaky on a loaded machine
                rc_t, out_t = sh([PY, "-m", "pytest", "-q", "-p", "no:cacheprovider", "test"], cwd=d, env=env, timeout=900)
                if rc_t == 0:
                    break
            tests_pass = rc_t == 0
            # run copies of the demo that sit next to the tree they are meant to exercise
            import glob
            import re as _re
            helpers = [h for h in glob.glob(os.path.join(src, "*.py")) if not _re.fullmatch(r"demo_\d+\.py", os.path.basename(h))]
            for h in helpers:
                shutil.copy(h, d)
            shutil.copy(demo, os.path.join(d, "demo_under_test.py"))
            rc_bad, out_bad = sh([PY, "demo_under_test.py"], cwd=d, env=env, timeout=600)
            good = "/var/tmp/seedeval/%s-%d-clean" % (pid, k)
            shutil.rmtree(good, ignore_errors=True)
            os.makedirs(good)
            shutil.copytree("/repo/canopen", good + "/canopen")
            shutil.copytree("/repo/test", good + "/test")
            for h in helpers:
                shutil.copy(h, good)
            shutil.copy(demo, os.path.join(good, "demo_under_test.py"))
            env0 = dict(os.environ, PYTHONPATH=good, PYTHONDONTWRITEBYTECODE="1")
            rc_good, out_good = sh([PY, "demo_under_test.py"], cwd=good, env=env0, timeout=600)
            shutil.rmtree(good, ignore_errors=True)
            demo_ok = (rc_bad != 0 or "FAIL" in out_bad) and rc_good == 0 and "FAIL" not in out_good
            results = {}
            for chk in checks:
                for tier in ([a.tier] if a.tier == "thorough" else ["quick", "thorough"]):
                    t0 = time.time()
                    rc_c, out_c = sh([os.path.join(ROOT, "check"), chk, "--tier", tier, "--no-evidence"],
                                     env=dict(os.environ, CANOPEN_REPO=d), timeout=7200)
                    mechs = [ln.strip() for ln in out_c.splitlines() if ln.strip().startswith("mechanism=")]
                    results[f"{chk}:{tier}"] = {"exit": rc_c, "caught": rc_c == 1, "mechanisms": mechs[:6], "wall_s": round(time.time() - t0, 1)}
                    if rc_c == 1:
                        break
            caught = any(r["caught"] for r in results.values())
            verdict = "CAUGHT" if caught else "MISSED"
            print(f"{pid}-{a.tag}{k}: tests_pass={tests_pass} demo_confirmed={demo_ok} -> {verdict}  "
                  + "; ".join(f"{c}={'caught' if r['caught'] else 'rc%s' % r['exit']} {r['mechanisms'][:1]}" for c, r in results.items()))
            if not (tests_pass and demo_ok):
                print(f"   NOT KEPT (tests_pass={tests_pass}, demo bad rc={rc_bad}, good rc={rc_good})")
                print("   demo on patched copy:", out_bad[-300:].replace("\n", " | "))
                print("   demo on /repo:", out_good[-300:].replace("\n", " | "))
                continue
            dest = os.path.join(ROOT, "seeded", f"{pid}-{a.tag}{k}")
            os.makedirs(dest, exist_ok=True)
            shutil.copy(patch, os.path.join(dest, "patch.diff"))
            shutil.copy(demo, os.path.join(dest, "demo.py"))
            for h in helpers:
                shutil.copy(h, dest)
            # the agent's own description of this change
            sect = ""
            if notes:
                import re
                parts = re.split(r"\n(?=#+ .*(?:[Cc]hange|CHANGE|Patch|patch)\s*%d)" % k, notes)
                sect = parts[1][:3000] if len(parts) > 1 else notes[:3000]
            meta = {
                "id": f"{pid}-{a.tag}{k}", "breaks_property": pid, "source": "independent sub-agent given only the property text and a scratch worktree",
                "needs_to_manifest": sect.strip()[:2500],
                "confirmed": {"repo_tests_pass_with_change": tests_pass, "demo_fails_with_change": True, "demo_passes_without_change": True,
                              "demo_output_with_change": out_bad[-400:]},
                "what_was_run": [f"patch -p1 -i patch.diff (scratch copy of /repo at {subprocess.run(['git', '-C', '/repo', 'rev-parse', '--short', 'HEAD'], capture_output=True, text=True).stdout.strip()})",
                                 "pytest -q test (patched copy)", "python demo.py (patched copy, then /repo)",
                                 *[f"CANOPEN_REPO=<copy> ./check {c.split(':')[0]} --tier {c.split(':')[1]}" for c in results]],
                "checks": results, "verdict": verdict,
            }
            with open(os.path.join(dest, "meta.json"), "w") as fh:
                json.dump(meta, fh, indent=1)
        finally:
            shutil.rmtree(d, ignore_errors=True)
    if os.path.isdir("/var/tmp/seedeval") and not os.listdir("/var/tmp/seedeval"):
        shutil.rmtree("/var/tmp/seedeval", ignore_errors=True)


if __name__ == "__main__":
    main()
