"""(id, property[,property], file, old text, new text) - small realistic breaks (DESIGN.md section 7)."""
C = "canopen/sdo/client.py"
S = "canopen/sdo/server.py"
D = "canopen/objectdictionary/datatypes.py"
O = "canopen/objectdictionary/__init__.py"
P = "canopen/pdo/base.py"

MUTANTS = [
    # ---- C01
    ("c01-n-off-by-one", "C01", C, "command |= (7 - bytes_sent) << 1", "command |= (8 - bytes_sent) << 1"),
    ("c01-last-flag-late", "C01", C, "self.pos + bytes_sent >= self.size:\n                # No more data after", "self.pos + bytes_sent > self.size:\n                # No more data after"),
    ("c01-toggle-not-flipped", "C01", C, "            command |= self._toggle\n            self._toggle ^= TOGGLE_BIT\n            # Can send", "            command |= self._toggle\n            # Can send"),
    ("c01-no-closing-segment", "C01", C, "if not self._done and not self._exp_header:", "if False and not self._done and not self._exp_header:"),
    ("c01-expedited-threshold", "C01", C, "if size is None or size < 1 or size > 4 or force_segment:", "if size is None or size < 1 or size > 3 or force_segment:"),
    ("c01-upload-truncation-dropped", "C01", C, "data = data[0:var_size]", "data = data"),
    ("c01-upload-exp-size", "C01", C, "self.size = 4 - ((res_command >> 2) & 0x3)", "self.size = 4 - ((res_command >> 2) & 0x1)"),
    ("c01-upload-seg-len", "C01", C, "length = 7 - ((res_command >> 1) & 0x7)", "length = 7 - ((res_command >> 1) & 0x3)"),
    ("c01-exp-n-bits", "C01", C, "command |= (4 - size) << 2", "command |= (4 - size) << 1"),
    ("c01-size-field", "C01", C, 'command |= SIZE_SPECIFIED\n                struct.pack_into("<L", request, 4, size)\n            SDO_STRUCT', 'command |= SIZE_SPECIFIED\n                struct.pack_into("<H", request, 4, size)\n            SDO_STRUCT'),
    # ---- C04
    ("c04-int32-unsigned-fmt", "C04", O, 'INTEGER32: struct.Struct("<l")', 'INTEGER32: struct.Struct("<L")'),
    ("c04-sign-byte-index", "C04", D, "neg = (buffer[self.size - 1] & mask) > 0", "neg = (buffer[self.size - 2] & mask) > 0"),
    ("c04-u16-big-endian", "C04", O, 'UNSIGNED16: struct.Struct("<H")', 'UNSIGNED16: struct.Struct(">H")'),
    ("c04-int-range-check-off", "C04", D, "if not -limit <= v[0] < limit:", "if not -limit <= v[0] <= limit:"),
    # ---- C05
    ("c05-mask-width", "C05", P, "data = (frame >> self.offset) & ((1 << self.length) - 1)", "data = (frame >> self.offset) & ((1 << self.length))"),
    ("c05-offset-after-length", "C05", P, "            var.offset = self.length\n            if length is not None:\n                # Custom bit length\n                var.length = length", "            if length is not None:\n                # Custom bit length\n                var.length = length\n            var.offset = self.length + (1 if self.length > 40 else 0)"),
    ("c05-write-no-mask", "C05", P, "frame |= (int.from_bytes(data, \"little\") << self.offset) & mask", "frame |= (int.from_bytes(data, \"little\") << self.offset)"),
    ("c05-sign-extension", "C05", P, "and data >> (self.length - 1)):", "and data >> (self.length - 1) and self.length > 3):"),
    # ---- C12
    ("c12-crc-during-retransmit", "C12", C, "if self.crc_supported and not self._retransmitting:", "if self.crc_supported:"),
    ("c12-blksize-not-updated", "C12", C, "        self._blksize = blksize\n        self._seqno = 0", "        self._seqno = 0"),
    ("c12-end-n-off-by-one", "C12", C, "command |= (7 - self._last_bytes_sent) << 2", "command |= (8 - self._last_bytes_sent) << 2"),
    ("c12-retransmit-slice", "C12", C, "block = self._current_block[ackseq:]", "block = self._current_block[ackseq + 1:]"),
    ("c12-retransmit-blksize", "C12", C, "        self._seqno = 0\n        self._blksize = blksize\n        # We are retransmitting", "        self._seqno = 0\n        # We are retransmitting"),
    ("c12-end-flag-early", "C12", C, "if self.size is not None and self.pos + len(data) >= self.size:\n            # This is the last data to be transmitted", "if self.size is not None and self.pos + len(data) + 1 >= self.size:\n            # This is the last data to be transmitted"),
    # ---- C13
    ("c13-trim-off-by-one", "C13", C, "data = response[1:8 - n]", "data = response[1:7 - n]"),
    ("c13-ackseq-not-reset", "C13", C, "        if self._ackseq == self.blksize:\n            self._ackseq = 0", "        if False:\n            self._ackseq = 0"),
    ("c13-crc-compare-removed", "C13", C, "if self._server_crc != self._crc.final():", "if False:"),
    ("c13-seqno-check-removed", "C13", C, "        seqno = res_command & 0x7F\n        if seqno == self._ackseq + 1:\n            self._ackseq = seqno\n        else:", "        seqno = res_command & 0x7F\n        if True:\n            self._ackseq = seqno\n        else:"),
    ("c13-crc-only-low-byte", "C13", C, "if self._server_crc != self._crc.final():", "if self._server_crc & 0xFF != self._crc.final() & 0xFF:"),
    ("c13-no-end-frame", "C13", C, "if self._done and not self._error:", "if False and self._done and not self._error:"),
    # ---- C02
    ("c02-segment-slice", "C02", S, "del self._buffer[:7]", "del self._buffer[:8]"),
    ("c02-precedence-swapped", "C02", "canopen/node/local.py", "            if obj.value is not None:\n                return obj.encode_raw(obj.value)\n            # Try default value\n            if obj.default is not None:\n                return obj.encode_raw(obj.default)", "            if obj.default is not None:\n                return obj.encode_raw(obj.default)\n            if obj.value is not None:\n                return obj.encode_raw(obj.value)"),
    ("c02-upload-n-bits", "C02", S, "res_command |= (4 - size) << 2", "res_command |= (3 - size) << 2 if size < 4 else 0"),
    ("c02-last-flag-exact-multiple", "C02", S, "        if not self._buffer:\n            # Nothing left in buffer", "        if not self._buffer and size < 7:\n            # Nothing left in buffer"),
    ("c02-download-toggle-not-reset", "C02", S, "            self._buffer = bytearray()\n            self._toggle = 0\n\n        SDO_STRUCT.pack_into(response, 0, res_command, index, subindex)", "            self._buffer = bytearray()\n\n        SDO_STRUCT.pack_into(response, 0, res_command, index, subindex)"),
    ("c02-download-last-byte", "C02", S, "last_byte = 8 - ((command >> 1) & 0x7)", "last_byte = 8 - ((command >> 1) & 0x3)"),
    ("c02-callback-after-store", "C02", "canopen/node/local.py", "        for callback in self._write_callbacks:\n            callback(index=index, subindex=subindex, od=obj, data=data)", "        for callback in self._write_callbacks[:1]:\n            callback(index=index, subindex=subindex, od=obj, data=data)"),
    ("c02-exp-nosize-length", "C02", S, "            else:\n                size = 4\n            self._node.set_data", "            else:\n                size = 3\n            self._node.set_data"),
    ("c02-upload-mux-echo", "C02", S, "        SDO_STRUCT.pack_into(response, 0, res_command, index, subindex)\n        self.send_response(response)\n\n    def segmented_upload", "        SDO_STRUCT.pack_into(response, 0, res_command, index, 0)\n        self.send_response(response)\n\n    def segmented_upload"),
    # ---- C06
    ("c06-code-readonly", "C06", "canopen/node/local.py", "raise SdoAbortedError(0x06010002)", "raise SdoAbortedError(0x06010001)"),
    ("c06-writable-check-skipped-segmented", "C06", S, "            self._node.set_data(self._index,\n                                self._subindex,\n                                self._buffer,\n                                check_writable=True)", "            self._node.set_data(self._index,\n                                self._subindex,\n                                self._buffer,\n                                check_writable=False)"),
    ("c06-callback-before-length-check", "C06", "canopen/node/local.py", "        # Check length matches type (length of od variable is in bits)\n        if obj.data_type in objectdictionary.NUMBER_TYPES and (\n            not 8 * len(data) == len(obj)\n        ):\n            raise SdoAbortedError(0x06070010)\n\n        # Try callbacks\n        for callback in self._write_callbacks:\n            callback(index=index, subindex=subindex, od=obj, data=data)", "        # Try callbacks\n        for callback in self._write_callbacks:\n            callback(index=index, subindex=subindex, od=obj, data=data)\n\n        if obj.data_type in objectdictionary.NUMBER_TYPES and (\n            not 8 * len(data) == len(obj)\n        ):\n            raise SdoAbortedError(0x06070010)"),
    ("c06-abort-code-truncated", "C06", C, 'abort_code, = struct.unpack_from("<L", response, 4)', 'abort_code, = struct.unpack_from("<L", response, 4)\n            abort_code &= 0x7FFFFFFF'),
    ("c06-subindex-check", "C06", "canopen/node/local.py", "raise SdoAbortedError(0x06090011)", "raise SdoAbortedError(0x06020000)"),
    ("c06-toggle-upload-unchecked", "C06", S, "    def segmented_upload(self, command):\n        if command & TOGGLE_BIT != self._toggle:", "    def segmented_upload(self, command):\n        if False and command & TOGGLE_BIT != self._toggle:"),
    ("c06-length-check-floats-only-ints", "C06", "canopen/node/local.py", "if obj.data_type in objectdictionary.NUMBER_TYPES and (", "if obj.data_type in objectdictionary.INTEGER_TYPES and ("),
    ("c06-abort-mux-stale", "C06", S, "        _, index, subindex = SDO_STRUCT.unpack_from(request)\n        self._index = index\n        self._subindex = subindex\n        res_command = RESPONSE_UPLOAD | SIZE_SPECIFIED", "        _, index, subindex = SDO_STRUCT.unpack_from(request)\n        res_command = RESPONSE_UPLOAD | SIZE_SPECIFIED"),
    ("c06-close-after-abort", "C06,C07", C, "        except SdoError:\n            # The transfer is over, there is nothing left to finish in close()\n            self._done = True\n            raise", "        except SdoError:\n            raise"),
    # ---- C03
    ("c03-send-lock-removed", "C03", "canopen/network.py", "        with self.send_lock:\n            self.bus.send(msg)", "        if True:\n            self.bus.send(msg)"),
    ("c03-shared-response-queue", "C03", C, "        SdoBase.__init__(self, rx_cobid, tx_cobid, od)\n        self.responses = queue.Queue()", "        SdoBase.__init__(self, rx_cobid, tx_cobid, od)\n        self.responses = SdoClient._shared if hasattr(SdoClient, '_shared') else SdoClient.__dict__.get('_shared') or setattr(SdoClient, '_shared', queue.Queue()) or SdoClient._shared"),
    ("c03-domain-not-forced-segment-and-truncated", "C03", "canopen/sdo/base.py", "self.sdo_node.download(self.od.index, self.od.subindex, data, force_segment)", "self.sdo_node.download(self.od.index, self.od.subindex, data[:127], force_segment)"),
    ("c03-server-shared-buffer", "C03", S, "            self._buffer = bytearray()\n            self._toggle = 0\n\n        SDO_STRUCT.pack_into(response, 0, res_command, index, subindex)", "            SdoServer._buffer = bytearray()\n            self._toggle = 0\n\n        SDO_STRUCT.pack_into(response, 0, res_command, index, subindex)"),
    ("c03-name-lookup-first-match", "C03", O, "        item = self.names.get(subindex) or self.subindices.get(subindex)\n        if item is None:\n            raise KeyError(f\"Subindex {pretty_index(None, subindex)} was not found\")", "        item = self.names.get(subindex) or self.subindices.get(subindex if not isinstance(subindex, int) else (subindex if subindex < 20 else 1))\n        if item is None:\n            raise KeyError(f\"Subindex {pretty_index(None, subindex)} was not found\")"),
    ("c03-real32-as-real64", "C03", O, 'REAL32: struct.Struct("<f")', 'REAL32: struct.Struct("<e")'),
    ("c03-unicode-utf8", "C03", O, 'return value.encode("utf_16_le")', 'return value.encode("utf_8")'),
    # ---- C10
    ("c10-duplicate-check-removed", "C10", "canopen/network.py", "        if callback not in self.subscribers[can_id]:\n            self.subscribers[can_id].append(callback)", "        self.subscribers[can_id].append(callback)"),
    ("c10-unsubscribe-one-removes-all", "C10", "canopen/network.py", "            self.subscribers[can_id].remove(callback)", "            del self.subscribers[can_id]"),
    ("c10-remove-network-forgets-emcy", "C10", "canopen/node/remote.py", "        self.network.unsubscribe(0x80 + self.id, self.emcy.on_emcy)\n", ""),
    ("c10-extended-threshold", "C10", "canopen/network.py", "        msg = can.Message(is_extended_id=can_id > 0x7FF,", "        msg = can.Message(is_extended_id=can_id >= 0x7FF,"),
    ("c10-periodic-extended", "C10", "canopen/network.py", "        self.msg = can.Message(is_extended_id=can_id > 0x7FF,", "        self.msg = can.Message(is_extended_id=can_id > 0xFFF,"),
    ("c10-remote-frames-dispatched", "C10", "canopen/network.py", "if msg.is_error_frame or msg.is_remote_frame:", "if msg.is_error_frame:"),
    ("c10-scanner-node0", "C10", "canopen/network.py", "if node_id not in self.nodes and node_id != 0 and service in self.SERVICES:", "if node_id not in self.nodes and service in self.SERVICES:"),
    ("c10-scanner-sdo-rx", "C10", "canopen/network.py", "SERVICES = (0x700, 0x580, 0x180, 0x280, 0x380, 0x480, 0x80)", "SERVICES = (0x700, 0x580, 0x600, 0x180, 0x280, 0x380, 0x480, 0x80)"),
    ("c10-local-remove-keeps-nmt", "C10", "canopen/node/local.py", "        self.network.unsubscribe(0, self.nmt.on_command)\n", ""),
    ("c10-notify-reversed", "C10", "canopen/network.py", "            for callback in callbacks:\n                callback(can_id, data, timestamp)", "            for callback in reversed(callbacks):\n                callback(can_id, data, timestamp)"),
    ("c10-replace-keeps-old", "C10", "canopen/network.py", "        if node_id in self.nodes:\n            # Remove old callbacks\n            self.nodes[node_id].remove_network()", "        if node_id in self.nodes and type(self.nodes[node_id]) is type(node):\n            # Remove old callbacks\n            self.nodes[node_id].remove_network()"),
    # ---- C16
    ("c16-reset-clears-log", "C16", "canopen/emcy.py", "                # Error reset\n                self.active = []", "                # Error reset\n                self.active = []\n                self.log = []"),
    ("c16-reset-mask", "C16", "canopen/emcy.py", "            if code & 0xFF00 == 0:", "            if code & 0xF000 == 0:"),
    ("c16-callback-order", "C16", "canopen/emcy.py", "        for callback in self.callbacks:\n            callback(entry)", "        for callback in reversed(self.callbacks):\n            callback(entry)"),
    ("c16-desc-mask", "C16", "canopen/emcy.py", '(0x5000, 0xFF00, "Device Hardware")', '(0x5000, 0xF000, "Device Hardware")'),
    ("c16-reset-entry-not-logged", "C16", "canopen/emcy.py", "                self.active.append(entry)\n            self.log.append(entry)", "                self.active.append(entry)\n                self.log.append(entry)"),
    ("c16-wait-returns-first", "C16", "canopen/emcy.py", "                emcy = self.log[-1]", "                emcy = self.log[prev_log_size - 1] if prev_log_size else self.log[-1]"),
    ("c16-producer-pad", "C16", "canopen/emcy.py", 'EMCY_STRUCT = struct.Struct("<HB5s")', 'EMCY_STRUCT = struct.Struct("<HB5p")'),
    ("c16-wait-no-notify", "C16", "canopen/emcy.py", "            self.log.append(entry)\n            self.emcy_received.notify_all()", "            self.log.append(entry)\n            if self.active:\n                self.emcy_received.notify_all()"),
    # ---- C17
    ("c17-pdo-start-no-stop", "C17", P, "        # overwrite the reference and can lose our handle to shut it down\n        self.stop()\n\n        if period is not None:\n            self.period = period\n\n        if not self.period:\n            raise ValueError(\"A valid transmission period has not been given\")\n        logger.info(\"Starting", "        # overwrite the reference and can lose our handle to shut it down\n\n        if period is not None:\n            self.period = period\n\n        if not self.period:\n            raise ValueError(\"A valid transmission period has not been given\")\n        logger.info(\"Starting"),
    ("c17-heartbeat-start-no-stop", "C17", "canopen/nmt.py", "        self._heartbeat_time_ms = heartbeat_time_ms\n\n        self.stop_heartbeat()", "        self._heartbeat_time_ms = heartbeat_time_ms\n"),
    ("c17-oncommand-no-update", "C17", "canopen/nmt.py", "        super(NmtSlave, self).on_command(can_id, data, timestamp)\n        self.update_heartbeat()", "        super(NmtSlave, self).on_command(can_id, data, timestamp)"),
    ("c17-heartbeat-zero-not-stopped", "C17", "canopen/nmt.py", "            if heartbeat_time == 0:\n                self.stop_heartbeat()", "            if heartbeat_time == 0:\n                pass"),
    ("c17-guarding-restart", "C17", "canopen/nmt.py", "        if self._node_guarding_producer : self.stop_node_guarding()", "        pass"),
    ("c17-update-no-restart", "C17", "canopen/network.py", "        elif new_data != old_data:", "        elif len(new_data) != len(old_data):"),
    ("c17-disconnect-skips-pdo", "C17", "canopen/network.py", "            if hasattr(node, \"pdo\"):\n                node.pdo.stop()", "            if hasattr(node, \"pdo\") and not hasattr(node, \"data_store\"):\n                node.pdo.stop()"),
    ("c17-heartbeat-period-unit", "C17", "canopen/nmt.py", "0x700 + self.id, [self._state], heartbeat_time_ms / 1000.0)", "0x700 + self.id, [self._state], heartbeat_time_ms / 100.0)"),
    ("c17-pdo-stop-keeps-handle", "C17", P, "        if self._task is not None:\n            self._task.stop()\n            self._task = None\n\n    def update(self)", "        if self._task is not None:\n            self._task.stop()\n\n    def update(self)"),
    ("c17-modify-data-stale", "C17", "canopen/network.py", "        if hasattr(self._task, \"modify_data\"):\n            self._task.modify_data(self.msg)", "        if hasattr(self._task, \"modify_data\"):\n            pass"),
]
