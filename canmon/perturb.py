"""Schedule perturbation with sys.monitoring (Python 3.12).

LINE events are enabled only for code objects whose file lies under the
canopen package of the tree under test.  At each statement start the callback
yields the GIL (``time.sleep(0)``) with a seeded probability and, for a handful
of *targeted* statements found by **source text pattern** (never by line
number), sleeps for a few hundred microseconds - e.g. between the queue flush
and the send in ``SdoClient.request_response``.  A pattern that no longer
matches only disables that one injection (reported in the evidence).

The perturbation never decides anything; it only widens the set of
interleavings the history checkers get to see.
"""
from __future__ import annotations

import linecache
import os
import random
import sys
import threading
import time

TOOL = 3  # sys.monitoring tool id (0..5); 3 is unused by debuggers/coverage/profilers by convention

DEFAULT_TARGETS = [
    # (file suffix, statement text that must appear on the line, delay in seconds)
    ("sdo/client.py", "self.send_request(sdo_request)", 0.0004),
    ("sdo/client.py", "response = self.responses.get(", 0.0002),
    ("network.py", "with self.send_lock:", 0.0002),
    ("network.py", "self.bus.send(msg)", 0.0003),
    ("network.py", "for callback in callbacks:", 0.0002),
    ("sdo/client.py", "self.responses.put(bytes(data))", 0.0002),
    ("sdo/server.py", "self.network.send_message(self.tx_cobid, response)", 0.0002),
    ("pdo/base.py", "self.receive_condition.notify_all()", 0.0002),
    ("emcy.py", "self.emcy_received.notify_all()", 0.0002),
    ("nmt.py", "self.state_update.notify_all()", 0.0002),
]


class Perturb:
    def __init__(self, seed=0, p_yield=0.02, targets=DEFAULT_TARGETS, p_target=0.5, root=None):
        import canopen
        self.root = os.path.dirname(os.path.realpath(canopen.__file__)) if root is None else root
        self.seed = seed
        self.p_yield = p_yield
        self.p_target = p_target
        self.targets = list(targets)
        self.tls = threading.local()
        self.yields = 0
        self.delays = 0
        self.lines = 0
        self.target_lines = {}          # (filename, lineno) -> delay
        self.matched_patterns = set()
        self.active = False
        self._code_seen = set()

    def _rng(self):
        r = getattr(self.tls, "rng", None)
        if r is None:
            r = self.tls.rng = random.Random(repr((self.seed, threading.current_thread().name)))
        return r

    def _scan(self, filename):
        if filename in self._code_seen:
            return
        self._code_seen.add(filename)
        rel = filename.replace(os.sep, "/")
        for suffix, text, delay in self.targets:
            if not rel.endswith(suffix):
                continue
            for i, line in enumerate(linecache.getlines(filename), start=1):
                if text in line:
                    self.target_lines[(filename, i)] = delay
                    self.matched_patterns.add((suffix, text))

    def start(self):
        mon = sys.monitoring
        mon.use_tool_id(TOOL, "canmon-perturb")
        root = self.root + os.sep

        def on_start(code, offset):
            fn = code.co_filename
            if fn.startswith(root):
                self._scan(fn)
                try:
                    mon.set_local_events(TOOL, code, mon.events.LINE)
                except ValueError:
                    pass
            return mon.DISABLE

        def on_line(code, line):
            self.lines += 1
            d = self.target_lines.get((code.co_filename, line))
            rng = self._rng()
            if d is not None and rng.random() < self.p_target:
                self.delays += 1
                time.sleep(d * (0.5 + rng.random()))
            elif rng.random() < self.p_yield:
                self.yields += 1
                time.sleep(0)

        mon.register_callback(TOOL, mon.events.PY_START, on_start)
        mon.register_callback(TOOL, mon.events.LINE, on_line)
        mon.set_events(TOOL, mon.events.PY_START)
        mon.restart_events()
        self.active = True
        return self

    def stop(self):
        if not self.active:
            return
        mon = sys.monitoring
        mon.set_events(TOOL, 0)
        mon.register_callback(TOOL, mon.events.PY_START, None)
        mon.register_callback(TOOL, mon.events.LINE, None)
        mon.free_tool_id(TOOL)
        self.active = False

    def report(self):
        missing = [(s, t) for s, t, _ in self.targets if (s, t) not in self.matched_patterns]
        return {"lines_seen": self.lines, "yields_injected": self.yields, "delays_injected": self.delays,
                "target_points_active": len(self.target_lines), "target_patterns_not_found": missing}
