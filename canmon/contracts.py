"""Record-only runtime contracts on the real canopen classes.

``install(cls, name, post)`` replaces the class attribute ``cls.name`` by a
wrapper that calls the original and then hands ``(self, args, kwargs, result,
exception, old)`` to ``post``; ``pre(self, *args)`` may snapshot state (``old``)
before the call.  The wrapper never changes the outcome of the call: whatever the
original returned or raised is returned or raised.  Conditions therefore
*record* (into a Ctx) instead of raising, which is what the guidance asks for
(a raising contract would perturb the run it observes).

icontract was considered (DESIGN.md section 2.4); record-only conditions need
nothing but this wrapper, and it removes a wheel install from every check run.
References bound before installation would bypass a wrapper, so every contract
counts its evaluations and a deciding contract with zero evaluations makes the
run inconclusive.
"""
from __future__ import annotations

import functools
import threading

_installed = []
_lock = threading.Lock()


class Contract:
    def __init__(self, cls, name, post, pre=None):
        self.cls, self.name, self.post, self.pre = cls, name, post, pre
        self.orig = cls.__dict__[name]
        self.evaluations = 0
        orig, contract = self.orig, self

        @functools.wraps(orig)
        def wrapper(self_, *args, **kwargs):
            old = contract.pre(self_, *args, **kwargs) if contract.pre else None
            try:
                result = orig(self_, *args, **kwargs)
            except BaseException as exc:
                with _lock:
                    contract.evaluations += 1
                contract.post(self_, args, kwargs, None, exc, old)
                raise
            with _lock:
                contract.evaluations += 1
            contract.post(self_, args, kwargs, result, None, old)
            return result

        wrapper.__canmon_contract__ = self
        setattr(cls, name, wrapper)
        _installed.append(self)

    def remove(self):
        setattr(self.cls, self.name, self.orig)
        if self in _installed:
            _installed.remove(self)


def install(cls, name, post, pre=None):
    return Contract(cls, name, post, pre)


def remove_all():
    for c in list(_installed):
        c.remove()
