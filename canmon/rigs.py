"""Common set-ups: real canopen objects attached to a SimBus with reference peers."""
from __future__ import annotations

from canmon import simbus
from canmon.ref.sdo_server import RefSdoServer, ServerActor


class ClientRig:
    """Real SdoClient (RemoteNode on its own Network) <-> RefSdoServer actor."""

    def __init__(self, node_id=5, od=None, mode="inline", timeout=0.005, seed=0, max_delay=0.0, **server_opts):
        import canopen
        self.bus = simbus.SimBus(mode=mode, seed=seed, max_delay=max_delay)
        self.net, self.station = simbus.make_network(self.bus, "master")
        self.od = od if od is not None else canopen.ObjectDictionary()
        self.node = canopen.RemoteNode(node_id, self.od)
        self.net.add_node(self.node)
        self.node.sdo.RESPONSE_TIMEOUT = timeout
        self.server = RefSdoServer(**server_opts)
        self.actor = ServerActor(self.server, 0x600 + node_id, 0x580 + node_id)
        self.server_station = self.bus.actor_station("refserver", self.actor)
        self.rx, self.tx = 0x600 + node_id, 0x580 + node_id

    @property
    def sdo(self):
        return self.node.sdo

    def wire(self, last=40):
        return [f.brief() for f in list(self.bus.log)[-last:]]

    def close(self):
        self.bus.close()


class PairRig:
    """Real SdoClient (RemoteNode on the master network) <-> real SdoServer
    (LocalNode on the slave network), one node or several, same OD."""

    def __init__(self, od_factory, node_ids=(5,), mode="inline", timeout=0.005, seed=0, max_delay=0.0,
                 master_kw=None, slave_kw=None):
        import canopen
        self.bus = simbus.SimBus(mode=mode, seed=seed, max_delay=max_delay)
        self.master_net, self.master_station = simbus.make_network(self.bus, "master", **(master_kw or {}))
        self.slave_net, self.slave_station = simbus.make_network(self.bus, "slave", **(slave_kw or {}))
        self.remotes, self.locals = {}, {}
        for nid in node_ids:
            r = canopen.RemoteNode(nid, od_factory())
            r.sdo.RESPONSE_TIMEOUT = timeout
            self.master_net.add_node(r)
            l = canopen.LocalNode(nid, od_factory())
            self.slave_net.add_node(l)
            self.remotes[nid], self.locals[nid] = r, l
        self.node_id = node_ids[0]
        self.node = self.remotes[self.node_id]
        self.local = self.locals[self.node_id]
        self.rx, self.tx = 0x600 + self.node_id, 0x580 + self.node_id

    @property
    def sdo(self):
        return self.node.sdo

    def wire(self, last=40):
        return [f.brief() for f in list(self.bus.log)[-last:]]

    def close(self):
        self.bus.close()
