"""Common set-ups: real canopen objects attached to a SimBus with reference peers."""
from __future__ import annotations

from canmon import simbus
from canmon.ref.sdo_server import RefSdoServer, ServerActor


class ClientRig:
    """Real SdoClient (RemoteNode on its own Network) <-> RefSdoServer actor."""

    def __init__(self, node_id=5, od=None, mode="inline", timeout=0.005, seed=0, max_delay=0.0, via="listener", **server_opts):
        import canopen
        self.bus = simbus.SimBus(mode=mode, seed=seed, max_delay=max_delay)
        self.net, self.station = simbus.make_network(self.bus, "master", via=via)
        self.od = od if od is not None else canopen.ObjectDictionary()
        self.node = canopen.RemoteNode(node_id, self.od)
        self.net.add_node(self.node)
        self.node.sdo.RESPONSE_TIMEOUT = timeout
        self.server = RefSdoServer(**server_opts)
        self.actor = ServerActor(self.server, 0x600 + node_id, 0x580 + node_id)
        self.server_station = self.bus.actor_station("refserver", self.actor)
        self.rx, self.tx = 0x600 + node_id, 0x580 + node_id

    @property
    def sdo(self):
        return self.node.sdo

    def wire(self, last=40):
        return [f.brief() for f in list(self.bus.log)[-last:]]

    def close(self):
        self.bus.close()


class PairRig:
    """Real SdoClient (RemoteNode on the master network) <-> real SdoServer
    (LocalNode on the slave network), one node or several, same OD."""

    def __init__(self, od_factory, node_ids=(5,), mode="inline", timeout=0.005, seed=0, max_delay=0.0,
                 master_kw=None, slave_kw=None):
        import canopen
        self.bus = simbus.SimBus(mode=mode, seed=seed, max_delay=max_delay)
        self.master_net, self.master_station = simbus.make_network(self.bus, "master", **(master_kw or {}))
        self.slave_net, self.slave_station = simbus.make_network(self.bus, "slave", **(slave_kw or {}))
        self.remotes, self.locals = {}, {}
        for nid in node_ids:
            r = canopen.RemoteNode(nid, od_factory())
            r.sdo.RESPONSE_TIMEOUT = timeout
            self.master_net.add_node(r)
            l = canopen.LocalNode(nid, od_factory())
            self.slave_net.add_node(l)
            self.remotes[nid], self.locals[nid] = r, l
        self.node_id = node_ids[0]
        self.node = self.remotes[self.node_id]
        self.local = self.locals[self.node_id]
        self.rx, self.tx = 0x600 + self.node_id, 0x580 + self.node_id

    @property
    def sdo(self):
        return self.node.sdo

    def wire(self, last=40):
        return [f.brief() for f in list(self.bus.log)[-last:]]

    def close(self):
        self.bus.close()


class LogCapture:
    """Collects records of the 'canopen' loggers (and keeps them off stderr)."""

    def __init__(self):
        import logging

        class H(logging.Handler):
            def __init__(h):
                super().__init__(level=logging.WARNING)
                h.records = []

            def emit(h, record):
                if len(h.records) < 10000:
                    h.records.append(record)
        self.handler = H()
        lg = logging.getLogger("canopen")
        lg.addHandler(self.handler)
        lg.propagate = False

    @property
    def records(self):
        return self.handler.records

    def exceptions(self):
        return [r for r in self.handler.records if r.exc_info]


class ServerRig:
    """Real SdoServer (LocalNode) driven by the strict reference client through
    Network.notify directly, so that an exception on the receive path is seen."""

    def __init__(self, od, node_id=5):
        import canopen
        from canmon.ref.sdo_client import RefSdoClient
        self.bus = simbus.SimBus(mode="inline")
        self.net, self.station = simbus.make_network(self.bus, "slave", via="notify")
        self.node = canopen.LocalNode(node_id, od)
        self.net.add_node(self.node)
        self.rx, self.tx = 0x600 + node_id, 0x580 + node_id
        self.outbox = []
        self.other_frames = []
        self.rx_errors = []
        self.bus.taps.append(self._tap)
        self.client = RefSdoClient(self.transport)
        self.requests = 0

    def _tap(self, frame):
        if frame.src == "slave" and frame.can_id == self.tx:
            self.outbox.append(frame.data)
        elif frame.src == "slave":
            self.other_frames.append(frame)

    def transport(self, frame):
        self.outbox = []
        self.requests += 1
        self.bus.log.append(simbus.Frame(self.bus.now(), "refclient", self.rx, False, False, frame))
        try:
            self.net.notify(self.rx, bytearray(frame), self.bus.now())
        except Exception as exc:  # noqa: BLE001 - the oracle's business
            self.rx_errors.append((bytes(frame), exc))
        return list(self.outbox)

    def wire(self, last=40):
        return [f.brief() for f in list(self.bus.log)[-last:]]

    def close(self):
        self.bus.close()
