"""Reference PDO bit-field arithmetic (CiA 301 7.3.x: bit 0 of byte 0 first,
little-endian).  The frame is one little-endian big integer."""
from canmon.ref import codec as R


def read_field(frame, offset, length):
    f = int.from_bytes(bytes(frame), "little")
    return (f >> offset) & ((1 << length) - 1)


def write_field(frame, offset, length, value_bits):
    n = len(frame)
    f = int.from_bytes(bytes(frame), "little")
    mask = ((1 << length) - 1) << offset
    f = (f & ~mask) | ((value_bits << offset) & mask)
    return f.to_bytes(n, "little")


def sign_extend(raw, length):
    return raw - (1 << length) if raw >> (length - 1) else raw


def field_value(raw, dt, length):
    """Typed value of a field holding the bit pattern ``raw``."""
    if dt in R.SIGNED:
        return sign_extend(raw, length)
    if dt in R.UNSIGNED:
        return raw
    if dt == R.BOOLEAN:
        return raw
    if dt in R.REALS:
        return R.decode(dt, raw.to_bytes(length // 8, "little"))
    raise KeyError(dt)


def field_to_typed_bytes(raw, dt, length):
    """The width/8-byte encoding a read of the variable must return."""
    if dt in R.REALS:
        return raw.to_bytes(length // 8, "little")
    w = R.width(dt)
    v = field_value(raw, dt, length)
    if dt == R.BOOLEAN:
        return v.to_bytes(1, "little")
    return int(v).to_bytes(w // 8, "little", signed=dt in R.SIGNED)
