"""Reference LSS slave (CiA 305), stdlib only.

States waiting / configuration; fast scan, switch state global / selective,
inquire identity and node id, configure node id / bit timing, activate bit
timing, store configuration.  Every answer is 8 bytes on 0x7E4.  It also
validates every master request (LSS wire monitor): 8 bytes, known command
specifier, reserved bytes zero.
"""
import struct

WAITING, CONFIGURATION = "waiting", "configuration"
KNOWN_CS = {0x04, 0x11, 0x13, 0x15, 0x17, 0x40, 0x41, 0x42, 0x43, 0x46, 0x47, 0x48, 0x49, 0x4A, 0x4B, 0x4C, 0x51, 0x5A, 0x5B, 0x5C, 0x5D, 0x5E}
# number of meaningful bytes after the command specifier; the rest is reserved and must be zero
USED = {0x04: 1, 0x11: 1, 0x13: 2, 0x15: 2, 0x17: 0, 0x40: 4, 0x41: 4, 0x42: 4, 0x43: 4, 0x46: 4, 0x47: 4, 0x48: 4, 0x49: 4,
        0x4A: 4, 0x4B: 4, 0x4C: 0, 0x51: 7, 0x5A: 0, 0x5B: 0, 0x5C: 0, 0x5D: 0, 0x5E: 0}
VALID_BIT_TIMINGS = {0, 1, 2, 3, 4, 6, 7, 8}


class LssSlave:
    def __init__(self, identity, node_id=0xFF):
        self.identity = list(identity)      # vendor, product, revision, serial
        self.node_id = node_id              # 0xFF = unconfigured
        self.pending_node_id = node_id
        self.state = WAITING
        self.pos = 0
        self.sel = [None, None, None]
        self.violations = []
        self.requests = 0
        self.bit_timing = None
        self.stored = 0
        self.activated = []
        self.services_seen = set()
        self.identify = {}                  # command specifier 0x46..0x4B -> number received (identify remote slave)
        self.identify_answers = 0

    def _v(self, mech, msg):
        self.violations.append((mech, msg))

    def feed(self, frame):
        """frame: object with can_id, ext, rtr, data.  Returns list of 8-byte answers."""
        data = frame.data
        self.requests += 1
        if frame.ext or frame.rtr:
            self._v("lss-frame-format", f"LSS request must be a standard data frame: {frame.brief()}")
        if len(data) != 8:
            self._v("lss-frame-not-8-bytes", f"LSS request of {len(data)} bytes: {data.hex()}")
            data = data.ljust(8, b"\x00")[:8]
        cs = data[0]
        if cs not in KNOWN_CS:
            self._v("lss-unknown-command", f"unknown LSS command specifier {cs:#x}")
            return []
        if any(data[1 + USED[cs]:]):
            self._v("lss-reserved-bytes-nonzero", f"request {data.hex()}: bytes after the {USED[cs]} used ones must be zero")
        self.services_seen.add(cs)
        if cs == 0x04:
            mode = data[1]
            if mode not in (0, 1):
                self._v("lss-bad-mode", f"switch state global with mode {mode}")
            if mode == 0 and self.state == CONFIGURATION:
                # CiA 305: leaving configuration state with a newly configured node id makes it the active one
                self.node_id = self.pending_node_id
            self.state = CONFIGURATION if mode == 1 else WAITING
            return []
        if cs in (0x40, 0x41, 0x42):
            self.sel[cs - 0x40] = struct.unpack_from("<I", data, 1)[0]
            return []
        if cs == 0x43:
            serial = struct.unpack_from("<I", data, 1)[0]
            sel, self.sel = self.sel, [None, None, None]
            if sel + [serial] == self.identity:
                self.state = CONFIGURATION
                return [bytes([0x44]) + bytes(7)]
            return []
        if 0x46 <= cs <= 0x4B:
            # identify remote slave: vendor id, product code, revision low / high, serial low / high - in this order of
            # command specifiers; the answer (0x4F) follows the last one when the identity lies inside
            self.identify[cs] = struct.unpack_from("<I", data, 1)[0]
            if cs == 0x4B:
                req, self.identify_last = self.identify, dict(self.identify)
                self.identify = {}
                if (len(req) == 6 and req[0x46] == self.identity[0] and req[0x47] == self.identity[1]
                        and req[0x48] <= self.identity[2] <= req[0x49] and req[0x4A] <= self.identity[3] <= req[0x4B]):
                    self.identify_answers += 1
                    return [bytes([0x4F]) + bytes(7)]
            return []
        if cs == 0x4C:
            return [bytes([0x50]) + bytes(7)] if self.node_id == 0xFF else []
        if cs == 0x51:
            idnumber, bitcheck, sub, nxt = struct.unpack_from("<IBBB", data, 1)
            if self.state != WAITING or self.node_id != 0xFF:
                return []
            if bitcheck == 0x80:
                self.pos = 0
                return [bytes([0x4F]) + bytes(7)]
            if bitcheck > 31 or sub > 3 or nxt > 3:
                self._v("lss-fastscan-range", f"fast scan with bitcheck {bitcheck} sub {sub} next {nxt}")
                return []
            if sub != self.pos:
                return []
            if (self.identity[sub] ^ idnumber) >> bitcheck:
                return []
            if bitcheck == 0:
                self.pos = nxt
                if nxt < sub:
                    self.state = CONFIGURATION
            return [bytes([0x4F]) + bytes(7)]
        if self.state != CONFIGURATION:
            return []
        if cs == 0x11:
            nid = data[1]
            ok = 1 <= nid <= 127 or nid == 0xFF
            if ok:
                self.pending_node_id = nid
            return [bytes([0x11, 0 if ok else 1, 0]) + bytes(5)]
        if cs == 0x13:
            selector, index = data[1], data[2]
            ok = selector == 0 and index in VALID_BIT_TIMINGS
            if ok:
                self.bit_timing = index
            return [bytes([0x13, 0 if ok else 1, 0]) + bytes(5)]
        if cs == 0x15:
            self.activated.append(struct.unpack_from("<H", data, 1)[0])
            return []
        if cs == 0x17:
            self.stored += 1
            return [bytes([0x17, 0, 0]) + bytes(5)]
        if 0x5A <= cs <= 0x5D:
            return [struct.pack("<BI3x", cs, self.identity[cs - 0x5A])]
        if cs == 0x5E:
            return [bytes([0x5E, self.pending_node_id]) + bytes(6)]
        return []


class LssActor:
    def __init__(self, slave, rx=0x7E5, tx=0x7E4):
        self.slave, self.rx, self.tx = slave, rx, tx

    def on_frame(self, frame, station):
        if frame.can_id == self.rx:
            for ans in self.slave.feed(frame):
                station.send(self.tx, ans)
