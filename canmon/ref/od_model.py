"""Plain-data model of an object dictionary (stdlib only).  Generators fill it,
``ref.eds_writer`` turns it into EDS/DCF text, builders turn it into real
canopen objects, and comparators check imported dictionaries against it."""
from __future__ import annotations


class VarM:
    def __init__(self, index, sub, name, dt, access="rw", default=None, value=None, lo=None, hi=None, pdo=False,
                 factor=1, unit="", description="", storage=None, relative=False, default_rel=None, value_rel=None):
        self.index, self.sub, self.name, self.dt, self.access = index, sub, name, dt, access
        self.default, self.value, self.lo, self.hi, self.pdo = default, value, lo, hi, pdo
        self.factor, self.unit, self.description, self.storage = factor, unit, description, storage
        self.relative = relative          # default given as $NODEID+x
        self.default_rel = default_rel    # x of $NODEID+x (default = x + node_id)
        self.value_rel = value_rel

    def brief(self):
        return {k: v for k, v in self.__dict__.items() if v not in (None, "", False, 1)}


class ObjM:
    def __init__(self, kind, index, name, members=None, storage=None, compact=False, compact_names=None):
        self.kind = kind                  # 'var' | 'record' | 'array'
        self.index, self.name = index, name
        self.members = members or {}      # sub -> VarM   (for 'var': {0: VarM})
        self.storage = storage
        self.compact = compact            # array written with CompactSubObj
        self.compact_names = compact_names  # None | dict sub -> name (written as [xxxxName])

    @property
    def var(self):
        return self.members[0]


class OdM:
    def __init__(self):
        self.objects = {}                 # index -> ObjM
        self.node_id = None
        self.bitrate = None
        self.device_info = {}
        self.comments = ""

    def add(self, obj):
        self.objects[obj.index] = obj
        return obj

    def variables(self):
        for idx in sorted(self.objects):
            o = self.objects[idx]
            for sub in sorted(o.members):
                yield o, o.members[sub]
