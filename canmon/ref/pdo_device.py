"""Reference device with strict CiA 301 PDO object semantics (stdlib only).

A RefSdoServer whose store holds PDO communication (sub 0,1,2,3,5,6) and
mapping (sub 0..8) objects.  It refuses out-of-order configuration writes the
way a strict device does and logs every write.
"""
from __future__ import annotations

import struct

from canmon.ref.sdo_server import RefSdoServer

ABORT_STATE = 0x08000022        # cannot be stored because of the present device state
ABORT_NOT_MAPPABLE = 0x06040041
ABORT_PDO_LENGTH = 0x06040042
ABORT_RO = 0x06010002
ABORT_NO_SUB = 0x06090011
ABORT_LENGTH = 0x06070010
WIDTH = {0: 1, 1: 4, 2: 1, 3: 2, 5: 2, 6: 1}


class PdoDevice(RefSdoServer):
    def __init__(self, mappable, **kw):
        """mappable: {(index, sub): bit length} of objects that may be mapped."""
        super().__init__(refuse=self._refuse, **kw)
        self.mappable = dict(mappable)
        self.write_log = []           # (index, sub, int value, accepted, abort code)
        self.locked = False           # e.g. while OPERATIONAL: every mapping write is refused (transient device state)
        self.pdos = {}                # com index -> map index
        self.missing_code = ABORT_NO_SUB   # what a read of a sub-entry the device does not implement is answered with: devices
                                           # differ (0x06090011, 0x06020000, 0x060A0023, 0x08000000 are all in use)

    # ---- set-up
    def add_pdo(self, com, mp, cob, trans=255, subs=(1, 2, 3, 5, 6), mapping=(), inhibit=0, event=0, sync_start=0):
        self.pdos[com] = mp
        self.store[(com, 0)] = bytes([max(subs)])
        vals = {1: cob, 2: trans, 3: inhibit, 5: event, 6: sync_start}
        for s in subs:
            self.store[(com, s)] = int(vals[s]).to_bytes(WIDTH[s], "little")
        self.store[(mp, 0)] = bytes([len(mapping)])
        for i in range(1, 9):
            word = 0
            if i <= len(mapping):
                idx, sub, ln = mapping[i - 1]
                word = idx << 16 | sub << 8 | ln
            self.store[(mp, i)] = word.to_bytes(4, "little")

    def cob(self, com):
        return int.from_bytes(self.store[(com, 1)], "little")

    def count(self, mp):
        return self.store[(mp, 0)][0]

    def mapping(self, mp):
        out = []
        for i in range(1, self.count(mp) + 1):
            w = int.from_bytes(self.store[(mp, i)], "little")
            out.append((w >> 16, (w >> 8) & 0xFF, w & 0xFF))
        return out

    # ---- write rules
    def _refuse(self, kind, mux, data):
        if kind == "upload" and mux_in(mux[0], self.pdos) and mux not in self.store:
            return self.missing_code
        if kind != "download":
            return None
        index, sub = mux
        code = self._check(index, sub, data)
        value = int.from_bytes(data, "little") if data is not None else None
        self.write_log.append((index, sub, value, code is None, code))
        return code

    def _check(self, index, sub, data):
        if mux_in(index, self.pdos):                       # communication parameter
            if (index, sub) not in self.store:
                return ABORT_NO_SUB
            if sub == 0:
                return ABORT_RO
            if len(data) != WIDTH[sub]:
                return ABORT_LENGTH
            if sub == 1:
                old, new = self.cob(index), int.from_bytes(data, "little")
                old_valid, new_valid = not old >> 31 & 1, not new >> 31 & 1
                if old_valid and new_valid and (old ^ new) & 0x3FFFFFFF:
                    return ABORT_STATE                     # COB-ID bits may only change while the PDO is invalid
                if new_valid:
                    mp = self.pdos[index]
                    if sum(ln for _, _, ln in self.mapping(mp)) > 64:
                        return ABORT_PDO_LENGTH
            return None
        for com, mp in self.pdos.items():
            if index == mp:                                # mapping parameter
                if (index, sub) not in self.store:
                    return ABORT_NO_SUB
                if self.locked:
                    return ABORT_STATE
                valid = not self.cob(com) >> 31 & 1
                if sub == 0:
                    if len(data) != 1:
                        return ABORT_LENGTH
                    if valid:
                        return ABORT_STATE
                    n = data[0]
                    if n > 8:
                        return ABORT_PDO_LENGTH
                    total = 0
                    for i in range(1, n + 1):
                        w = int.from_bytes(self.store[(index, i)], "little")
                        key = (w >> 16, (w >> 8) & 0xFF)
                        if key not in self.mappable:
                            return ABORT_NOT_MAPPABLE
                        total += w & 0xFF
                    if total > 64:
                        return ABORT_PDO_LENGTH
                    return None
                if len(data) != 4:
                    return ABORT_LENGTH
                if valid or self.count(mp) != 0:
                    return ABORT_STATE                     # entries may only be written while invalid and count == 0
                return None
        return None


def mux_in(index, pdos):
    return index in pdos
