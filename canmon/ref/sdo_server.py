"""Strict reference SDO server (CiA 301 7.2.4), stdlib only - never imports canopen.

It *acts* as a conformant server and *validates* every client frame for the
current protocol step (this is the client-side wire monitor of C01/C12/C13):
findings go to ``self.violations`` as (mechanism, message) and never change the
protocol reaction.

``feed(data) -> [response frames]`` is synchronous.  No timers exist: like any
CiA 301 server it leaves a block-download sub-block only on a last segment, a
full block or an abort frame.
"""
from __future__ import annotations

import struct

from canmon.ref.codec import crc16_xmodem

ABORT_TOGGLE = 0x05030000
ABORT_TIMEOUT = 0x05040000
ABORT_COMMAND = 0x05040001
ABORT_BLKSIZE = 0x05040002
ABORT_SEQNO = 0x05040003
ABORT_CRC = 0x05040004
ABORT_NO_OBJECT = 0x06020000
ABORT_LENGTH = 0x06070010
ABORT_GENERAL = 0x08000000


def abort_frame(index, sub, code):
    return struct.pack("<BHBL", 0x80, index, sub, code)


class RefSdoServer:
    def __init__(self, store=None, upload_size_indicated=True, expedited_size_indicated=True,
                 expedited_upload=True, blk_sizes=(127,), crc_support=True, block_upload_support=True,
                 block_upload_size_indicated=True, refuse=None, segment_fill=None):
        self.store = dict(store or {})          # (index, sub) -> bytes
        self.upload_size_indicated = upload_size_indicated
        self.expedited_size_indicated = expedited_size_indicated
        self.expedited_upload = expedited_upload
        self.blk_sizes = list(blk_sizes)        # block-download block sizes announced, cycled
        self.crc_support = crc_support
        self.block_upload_support = block_upload_support
        self.block_upload_size_indicated = block_upload_size_indicated   # s bit of the block upload initiate response
        self.segment_fill = segment_fill        # data bytes per upload segment, cycled (0..7; None = 7): CiA 301 lets a
                                                # server fill any segment, not only the last one, partly (n > 0 with c = 0)
        self.check_size = True                  # a server may ignore the announced size (it is informative): False = commit what came
        self.refuse = refuse                    # callable(kind, mux, data|None) -> abort code | None
        self.read_hook = None                   # callable(mux) -> bytes | None: value computed at upload time
        self.violations = []                    # (mechanism, message)
        self.observations = []                  # things worth reporting that no property forbids
        self.commits = []                       # (mux, bytes) in commit order
        self.aborts_received = []               # (mux, code)
        self.frames_seen = 0
        self.steps_seen = set()
        self.trace = []
        self._blk_i = 0
        self.state = "idle"
        self.completed = 0                      # transfers that ended cleanly

    # ------------------------------------------------------------------ helpers
    def _v(self, mech, msg):
        self.violations.append((mech, msg))

    def _next_blksize(self):
        b = self.blk_sizes[self._blk_i % len(self.blk_sizes)]
        self._blk_i += 1
        return b

    def _abort(self, code, mux=None):
        mux = mux or getattr(self, "mux", None) or (0, 0)
        self.state = "idle"
        return [abort_frame(mux[0], mux[1], code)]

    def _zero(self, data, start, what):
        if any(data[start:]):
            self._v("client-reserved-bytes-nonzero", f"{what}: bytes {start}..7 must be zero, frame {data.hex()}")

    # ------------------------------------------------------------------ main entry
    def feed(self, data):
        data = bytes(data)
        self.frames_seen += 1
        self.trace.append(("rx", data))
        out = self._feed(data)
        for o in out:
            self.trace.append(("tx", o))
        if len(self.trace) > 4000:
            del self.trace[:2000]
        return out

    def _feed(self, data):
        if len(data) != 8:
            self._v("client-frame-not-8-bytes", f"client frame of {len(data)} bytes: {data.hex()}")
            if not data:
                return []
            data = data.ljust(8, b"\x00")[:8]
        b0 = data[0]
        # ---- inside a block-download sub-block every frame is a segment (or an abort)
        if self.state == "bdl_seg":
            if b0 == 0x80:
                return self._on_abort(data)
            return self._bdl_segment(data)
        ccs = b0 >> 5
        if ccs == 4:
            return self._on_abort(data)
        if self.state == "bul_data" and not (ccs == 5 and (b0 & 3) in (2,)):
            # during block upload only the block acknowledge (or abort) is legal
            self._v("client-illegal-frame-in-block-upload", f"frame {data.hex()} while waiting for a block upload acknowledge")
        if ccs == 1:
            return self._init_download(data)
        if ccs == 0:
            return self._download_segment(data)
        if ccs == 2:
            return self._init_upload(data)
        if ccs == 3:
            return self._upload_segment(data)
        if ccs == 6:
            return self._block_download(data)
        if ccs == 5:
            return self._block_upload(data)
        self._v("client-unknown-command", f"client command specifier {ccs}: {data.hex()}")
        return self._abort(ABORT_COMMAND)

    def _on_abort(self, data):
        b0, index, sub, code = struct.unpack("<BHBL", data)
        if b0 != 0x80:
            self._v("client-abort-reserved-bits", f"abort frame with command byte {b0:#x}")
        self.steps_seen.add("abort")
        self.aborts_received.append(((index, sub), code))
        self.state = "idle"
        return []

    # ------------------------------------------------------------------ download
    def _init_download(self, data):
        b0, index, sub = struct.unpack_from("<BHB", data)
        if self.state not in ("idle",):
            self._v("client-initiate-during-transfer", f"initiate download while in state {self.state}")
        e, s, n = (b0 >> 1) & 1, b0 & 1, (b0 >> 2) & 3
        if b0 & 0x10:
            self._v("client-reserved-bit", f"initiate download with reserved bit 4 set: {data.hex()}")
        self.mux = (index, sub)
        self.steps_seen.add("dl_init_exp" if e else "dl_init_seg")
        if e:
            if not s and n:
                self._v("client-n-without-s", f"expedited download with s=0 but n={n}")
            length = 4 - n if s else 4
            if any(data[4 + length:]):
                self._v("client-padding-nonzero", f"expedited download of {length} bytes with non-zero padding: {data.hex()}")
            payload = data[4:4 + length]
            code = self.refuse("download", self.mux, payload) if self.refuse else None
            if code is not None:
                return self._abort(code)
            self.store[self.mux] = payload
            self.commits.append((self.mux, payload))
            self.completed += 1
            self.state = "idle"
            return [struct.pack("<BHB4x", 0x60, index, sub)]
        if n:
            self._v("client-n-without-e", f"segmented download initiate with n={n}: {data.hex()}")
        if s:
            self.size = struct.unpack_from("<L", data, 4)[0]
        else:
            self.size = None
            self._zero(data, 4, "initiate download without size")
        code = self.refuse("download-init", self.mux, None) if self.refuse else None
        if code is not None:
            return self._abort(code)
        self.buf = bytearray()
        self.toggle = 0
        self.state = "dl"
        return [struct.pack("<BHB4x", 0x60, index, sub)]

    def _download_segment(self, data):
        b0 = data[0]
        if self.state != "dl":
            self._v("client-segment-without-transfer", f"download segment {data.hex()} in state {self.state}")
            return self._abort(ABORT_COMMAND)
        t, n, c = (b0 >> 4) & 1, (b0 >> 1) & 7, b0 & 1
        self.steps_seen.add("dl_seg_last" if c else "dl_seg")
        if t != self.toggle:
            self._v("client-toggle", f"download segment toggle {t}, expected {self.toggle}")
            return self._abort(ABORT_TOGGLE)
        if any(data[8 - n:]) and n:
            self._v("client-padding-nonzero", f"download segment n={n} with non-zero unused bytes: {data.hex()}")
        self.buf += data[1:8 - n]
        resp = [bytes([0x20 | (t << 4)]) + bytes(7)]
        self.toggle ^= 1
        if self.size is not None and len(self.buf) > self.size:
            self._v("client-size-exceeded", f"more segment data ({len(self.buf)}) than the declared size {self.size}")
        if c:
            if self.size is not None and len(self.buf) != self.size:
                self._v("client-size-mismatch", f"declared size {self.size} but {len(self.buf)} bytes were sent")
                return self._abort(ABORT_LENGTH)
            code = self.refuse("download", self.mux, bytes(self.buf)) if self.refuse else None
            if code is not None:
                return self._abort(code)
            self.store[self.mux] = bytes(self.buf)
            self.commits.append((self.mux, bytes(self.buf)))
            self.completed += 1
            self.state = "idle"
        elif self.size is not None and len(self.buf) == self.size:
            self._v("client-last-flag-missing", f"all {self.size} declared bytes sent but c is not set")
        return resp

    # ------------------------------------------------------------------ upload
    def _init_upload(self, data):
        b0, index, sub = struct.unpack_from("<BHB", data)
        if self.state != "idle":
            self._v("client-initiate-during-transfer", f"initiate upload while in state {self.state}")
        if b0 != 0x40:
            self._v("client-reserved-bit", f"initiate upload with command byte {b0:#x}")
        self._zero(data, 4, "initiate upload")
        self.mux = (index, sub)
        self.steps_seen.add("ul_init")
        code = self.refuse("upload", self.mux, None) if self.refuse else None
        if code is not None:
            return self._abort(code)
        if self.read_hook is not None:
            dyn = self.read_hook(self.mux)
            if dyn is not None:
                return self._start_upload(bytes(dyn))
        if self.mux not in self.store:
            return self._abort(ABORT_NO_OBJECT)
        return self._start_upload(self.store[self.mux])

    def _start_upload(self, value):
        index, sub = self.mux
        n = len(value)
        if self.expedited_upload and 1 <= n <= 4 and (self.expedited_size_indicated or n == 4):
            self.state = "idle"
            self.completed += 1
            if self.expedited_size_indicated:
                return [struct.pack("<BHB", 0x43 | ((4 - n) << 2), index, sub) + value.ljust(4, b"\x00")]
            return [struct.pack("<BHB", 0x42, index, sub) + value]
        self.value = value
        self.pos = 0
        self.toggle = 0
        self._fill_i = 0
        self.state = "ul"
        if self.upload_size_indicated:
            return [struct.pack("<BHBL", 0x41, index, sub, n)]
        return [struct.pack("<BHB4x", 0x40, index, sub)]

    def _upload_segment(self, data):
        b0 = data[0]
        if self.state != "ul":
            self._v("client-segment-without-transfer", f"upload segment request {data.hex()} in state {self.state}")
            return self._abort(ABORT_COMMAND)
        t = (b0 >> 4) & 1
        if b0 & 0x0F:
            self._v("client-reserved-bit", f"upload segment request with command byte {b0:#x}")
        self._zero(data, 1, "upload segment request")
        self.steps_seen.add("ul_seg")
        if t != self.toggle:
            self._v("client-toggle", f"upload segment request toggle {t}, expected {self.toggle}")
            return self._abort(ABORT_TOGGLE)
        room = 7
        if self.segment_fill:
            room = self.segment_fill[self._fill_i % len(self.segment_fill)]
            self._fill_i += 1
            self.steps_seen.add("ul_seg_short" if room < 7 else "ul_seg")
        chunk = self.value[self.pos:self.pos + room]
        self.pos += len(chunk)
        last = self.pos >= len(self.value)
        resp = bytes([(t << 4) | ((7 - len(chunk)) << 1) | (1 if last else 0)]) + chunk.ljust(7, b"\x00")
        self.toggle ^= 1
        if last:
            self.state = "idle"
            self.completed += 1
        return [resp]

    # ------------------------------------------------------------------ block download
    def _block_download(self, data):
        b0 = data[0]
        cs = b0 & 1
        if cs == 0:
            index, sub = struct.unpack_from("<HB", data, 1)
            if self.state != "idle":
                self._v("client-initiate-during-transfer", f"initiate block download while in state {self.state}")
            if b0 & 0x18:
                self._v("client-reserved-bit", f"block download initiate command byte {b0:#x}")
            cc, s = (b0 >> 2) & 1, (b0 >> 1) & 1
            self.mux = (index, sub)
            self.steps_seen.add("bdl_init")
            if s:
                self.size = struct.unpack_from("<L", data, 4)[0]
            else:
                self.size = None
                self._zero(data, 4, "block download initiate without size")
            code = self.refuse("download-init", self.mux, None) if self.refuse else None
            if code is not None:
                return self._abort(code)
            self.use_crc = bool(cc and self.crc_support)
            self.buf = bytearray()
            self.lastseq = 0
            self.last_c = False
            self.blksize = self._next_blksize()
            self.subblocks = 0
            self.state = "bdl_seg"
            return [struct.pack("<BHBB3x", 0xA0 | (0x04 if self.crc_support else 0), index, sub, self.blksize)]
        # end block download
        if self.state != "bdl_end":
            self._v("client-block-end-out-of-sequence", f"block download end {data.hex()} in state {self.state}")
            return self._abort(ABORT_COMMAND)
        if b0 & 0x02:
            self._v("client-reserved-bit", f"block download end command byte {b0:#x}")
        n = (b0 >> 2) & 7
        self._zero(data, 3, "block download end")
        self.steps_seen.add("bdl_end")
        payload = bytes(self.buf[:len(self.buf) - n]) if n else bytes(self.buf)
        if self.size is not None and len(payload) != self.size and self.check_size:
            self._v("client-block-size-mismatch",
                    f"declared size {self.size}, received {len(self.buf)} segment bytes, end frame n={n} -> {len(payload)} bytes")
            return self._abort(ABORT_LENGTH)
        crc = struct.unpack_from("<H", data, 1)[0]
        if self.use_crc:
            want = crc16_xmodem(payload)
            if crc != want:
                self._v("client-block-crc", f"end frame CRC {crc:#06x}, payload CRC {want:#06x} ({len(payload)} bytes)")
                return self._abort(ABORT_CRC)
        elif crc:
            # CiA 301 reserves the field when CRC was not negotiated by both sides; a server ignores it.
            # C12 only demands a correct CRC *when negotiated*, so this is an observation, not a finding.
            self.observations.append(("client-crc-not-negotiated-nonzero", f"CRC field {crc:#06x} although CRC was not negotiated"))
        code = self.refuse("download", self.mux, payload) if self.refuse else None
        if code is not None:
            return self._abort(code)
        self.store[self.mux] = payload
        self.commits.append((self.mux, payload))
        self.completed += 1
        self.state = "idle"
        return [bytes([0xA1]) + bytes(7)]

    def _bdl_segment(self, data):
        b0 = data[0]
        c, seq = b0 >> 7, b0 & 0x7F
        self.steps_seen.add("bdl_seg")
        if seq == 0 or seq > self.blksize:
            self._v("client-block-seqno-range", f"block segment seqno {seq} outside 1..{self.blksize}")
        if seq == self.lastseq + 1:
            self.buf += data[1:8]
            self.lastseq = seq
            self.last_c = bool(c)
        else:
            self.steps_seen.add("bdl_seg_ignored")
        if c or seq >= self.blksize:
            ack = self.lastseq
            complete = self.last_c and True
            self.subblocks += 1
            if complete:
                self.state = "bdl_end"
                nxt = self._next_blksize()
            else:
                self.lastseq = 0
                nxt = self._next_blksize()
                self.blksize = nxt
            self.steps_seen.add("bdl_ack_full" if ack == seq else "bdl_ack_partial")
            return [bytes([0xA2, ack, nxt]) + bytes(5)]
        return []

    # ------------------------------------------------------------------ block upload
    def _block_upload(self, data):
        b0 = data[0]
        cs = b0 & 3
        if cs == 0:
            index, sub, blksize, pst = struct.unpack_from("<HBBB", data, 1)
            if self.state != "idle":
                self._v("client-initiate-during-transfer", f"initiate block upload while in state {self.state}")
            if b0 & 0x18:
                self._v("client-reserved-bit", f"block upload initiate command byte {b0:#x}")
            self._zero(data, 6, "block upload initiate")
            self.mux = (index, sub)
            self.steps_seen.add("bul_init")
            if not 1 <= blksize <= 127:
                self._v("client-block-size-range", f"block upload initiate with blksize {blksize}")
                return self._abort(ABORT_BLKSIZE)
            code = self.refuse("upload", self.mux, None) if self.refuse else None
            if code is not None:
                return self._abort(code)
            if self.mux not in self.store:
                return self._abort(ABORT_NO_OBJECT)
            if not self.block_upload_support:
                return self._start_upload(self.store[self.mux])
            self.value = self.store[self.mux]
            self.use_crc = bool((b0 >> 2) & 1 and self.crc_support)
            self.client_blksize = blksize
            self.base = 0            # segments acknowledged so far
            self.sent = 0
            self.state = "bul_init"
            if not self.block_upload_size_indicated:
                return [struct.pack("<BHB4x", 0xC0 | (0x04 if self.crc_support else 0), index, sub)]
            return [struct.pack("<BHBL", 0xC2 | (0x04 if self.crc_support else 0), index, sub, len(self.value))]
        if cs == 3:
            if self.state != "bul_init":
                self._v("client-block-start-out-of-sequence", f"block upload start in state {self.state}")
                return self._abort(ABORT_COMMAND)
            if b0 != 0xA3:
                self._v("client-reserved-bit", f"block upload start command byte {b0:#x}")
            self._zero(data, 1, "block upload start")
            self.steps_seen.add("bul_start")
            return self._send_subblock()
        if cs == 2:
            if self.state != "bul_data":
                self._v("client-block-ack-out-of-sequence", f"block upload acknowledge {data.hex()} in state {self.state}")
                return self._abort(ABORT_COMMAND)
            ackseq, blksize = data[1], data[2]
            if b0 != 0xA2:
                self._v("client-reserved-bit", f"block upload acknowledge command byte {b0:#x}")
            self._zero(data, 3, "block upload acknowledge")
            self.steps_seen.add("bul_ack_full" if ackseq == self.sent else "bul_ack_partial")
            if ackseq > self.sent:
                self._v("client-block-ackseq", f"acknowledged {ackseq} segments but only {self.sent} were sent")
                return self._abort(ABORT_SEQNO)
            if not 1 <= blksize <= 127:
                self._v("client-block-size-range", f"block upload acknowledge with blksize {blksize}")
                return self._abort(ABORT_BLKSIZE)
            self.base += ackseq
            self.client_blksize = blksize
            total = max(1, -(-len(self.value) // 7))
            if self.base >= total:
                n = (7 - len(self.value) % 7) % 7 if self.value else 7
                crc = crc16_xmodem(self.value) if self.use_crc else 0
                self.state = "bul_end"
                return [struct.pack("<BH5x", 0xC1 | (n << 2), crc)]
            return self._send_subblock()
        # cs == 1: end
        if self.state != "bul_end":
            self._v("client-block-end-out-of-sequence", f"block upload end in state {self.state}")
            return self._abort(ABORT_COMMAND)
        if b0 != 0xA1:
            self._v("client-reserved-bit", f"block upload end command byte {b0:#x}")
        self._zero(data, 1, "block upload end")
        self.steps_seen.add("bul_end")
        self.state = "idle"
        self.completed += 1
        return []

    def _send_subblock(self):
        total = max(1, -(-len(self.value) // 7))
        out = []
        k = min(self.client_blksize, total - self.base)
        for seq in range(1, k + 1):
            i = self.base + seq - 1
            chunk = self.value[i * 7:i * 7 + 7].ljust(7, b"\x00")
            last = 0x80 if i == total - 1 else 0
            out.append(bytes([last | seq]) + chunk)
        self.sent = k
        self.state = "bul_data"
        return out


class ServerActor:
    """SimBus actor hosting a RefSdoServer on one SDO channel."""

    def __init__(self, server, rx_cobid, tx_cobid):
        self.server, self.rx, self.tx = server, rx_cobid, tx_cobid

    def on_frame(self, frame, station):
        if frame.can_id == self.rx and not frame.rtr:
            for resp in self.server.feed(frame.data):
                station.send(self.tx, resp)
