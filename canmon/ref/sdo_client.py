"""Strict reference SDO client (CiA 301 7.2.4), stdlib only - never imports canopen.

Drives a server through ``transport(frame_bytes) -> [response frames]`` and
validates every response for the current step (server-side wire monitor of
C02 / C06).  Findings go to ``self.violations`` as (mechanism, message).

Transfers return ('ok', bytes|None), ('abort', code, (index, sub)) or
('violation', mechanism) when the conversation cannot be continued.
"""
from __future__ import annotations

import struct


class RefSdoClient:
    def __init__(self, transport):
        self.transport = transport
        self.violations = []
        self.responses_validated = 0
        self.steps_seen = set()

    def _v(self, mech, msg):
        self.violations.append((mech, msg))

    # ------------------------------------------------------------------ one request/response
    def exchange(self, frame, expect_response=True, step="?"):
        resps = [bytes(r) for r in self.transport(bytes(frame))]
        self.responses_validated += 1
        if not expect_response:
            if resps:
                self._v("server-responded-to-abort", f"{len(resps)} response(s) to a client abort: {[r.hex() for r in resps]}")
            return None
        if len(resps) != 1:
            self._v("server-response-count" if resps else "server-silent",
                    f"{len(resps)} responses to request {bytes(frame).hex()} at step {step}: {[r.hex() for r in resps]}")
            if not resps:
                return None
        r = resps[0]
        if len(r) != 8:
            self._v("server-frame-not-8-bytes", f"response of {len(r)} bytes: {r.hex()}")
            r = r.ljust(8, b"\x00")[:8]
        return r

    def _abort_info(self, r, mux, step, check_mux=True):
        b0, index, sub, code = struct.unpack("<BHBL", r)
        if b0 != 0x80:
            self._v("server-abort-reserved-bits", f"abort frame with command byte {b0:#x}")
        if check_mux and (index, sub) != tuple(mux):
            self._v("server-abort-wrong-multiplexer",
                    f"abort frame names {index:#06x}:{sub:02x} but the transfer is on {mux[0]:#06x}:{mux[1]:02x} (step {step}, code {code:#010x})")
        self.steps_seen.add("abort@" + step)
        return ("abort", code, (index, sub))

    # ------------------------------------------------------------------ upload
    def upload(self, index, sub, max_segments=100000):
        mux = (index, sub)
        r = self.exchange(struct.pack("<BHB4x", 0x40, index, sub), step="ul_init")
        if r is None:
            return ("violation", "no-response")
        if r[0] == 0x80:
            return self._abort_info(r, mux, "ul_init")
        b0, rindex, rsub = struct.unpack_from("<BHB", r)
        if b0 >> 5 != 2:
            self._v("server-wrong-specifier", f"initiate upload answered with command byte {b0:#x}")
            return ("violation", "wrong-specifier")
        if (rindex, rsub) != mux:
            self._v("server-wrong-multiplexer", f"initiate upload response for {rindex:#06x}:{rsub:02x} instead of {index:#06x}:{sub:02x}")
        if b0 & 0x10:
            self._v("server-reserved-bit", f"initiate upload response with reserved bit 4 set: {r.hex()}")
        e, s, n = (b0 >> 1) & 1, b0 & 1, (b0 >> 2) & 3
        self.steps_seen.add("ul_init_exp" if e else "ul_init_seg")
        if e:
            if not s and n:
                self._v("server-n-without-s", f"expedited upload response with s=0 but n={n}")
            length = 4 - n if s else 4
            if any(r[4 + length:]):
                self._v("server-padding-nonzero", f"expedited upload of {length} bytes with non-zero padding: {r.hex()}")
            return ("ok", r[4:4 + length])
        if n:
            self._v("server-n-without-e", f"segmented upload initiate response with n={n}: {r.hex()}")
        size = struct.unpack_from("<L", r, 4)[0] if s else None
        if not s and any(r[4:]):
            self._v("server-reserved-bytes-nonzero", f"initiate upload response without size but bytes 4..7 = {r[4:].hex()}")
        buf = bytearray()
        toggle = 0
        for _ in range(max_segments):
            r = self.exchange(bytes([0x60 | (toggle << 4)]) + bytes(7), step="ul_seg")
            if r is None:
                return ("violation", "no-response")
            if r[0] == 0x80:
                return self._abort_info(r, mux, "ul_seg")
            b0 = r[0]
            if b0 >> 5 != 0:
                self._v("server-wrong-specifier", f"upload segment answered with command byte {b0:#x}")
                return ("violation", "wrong-specifier")
            t, n, c = (b0 >> 4) & 1, (b0 >> 1) & 7, b0 & 1
            self.steps_seen.add("ul_seg_last" if c else "ul_seg")
            if t != toggle:
                self._v("server-toggle", f"upload segment toggle {t}, expected {toggle}")
            if n and any(r[8 - n:]):
                self._v("server-padding-nonzero", f"upload segment n={n} with non-zero unused bytes: {r.hex()}")
            buf += r[1:8 - n]
            toggle ^= 1
            if size is not None and len(buf) > size:
                self._v("server-size-exceeded", f"more segment data ({len(buf)}) than the announced size {size}")
            if c:
                if size is not None and len(buf) != size:
                    self._v("server-size-mismatch", f"announced size {size} but {len(buf)} bytes were sent")
                return ("ok", bytes(buf))
            if size is not None and len(buf) == size:
                self._v("server-last-flag-missing", f"all {size} announced bytes sent but c is not set")
            if n:
                # legal but worth noting: short segment that is not the last
                pass
        self._v("server-endless-upload", "upload did not end")
        return ("violation", "endless")

    # ------------------------------------------------------------------ download
    def download(self, index, sub, data, mode="auto", size_indicated=True, seg_sizes=None):
        data = bytes(data)
        mux = (index, sub)
        if mode == "auto":
            mode = "expedited" if 1 <= len(data) <= 4 else "segmented"
        if mode == "expedited":
            b0 = 0x23 | ((4 - len(data)) << 2)
            r = self.exchange(struct.pack("<BHB", b0, index, sub) + data.ljust(4, b"\x00"), step="dl_exp")
            return self._dl_init_response(r, mux, "dl_exp")
        if mode == "expedited_nosize":
            assert len(data) == 4
            r = self.exchange(struct.pack("<BHB", 0x22, index, sub) + data, step="dl_exp")
            return self._dl_init_response(r, mux, "dl_exp")
        if size_indicated:
            req = struct.pack("<BHBL", 0x21, index, sub, len(data))
        else:
            req = struct.pack("<BHB4x", 0x20, index, sub)
        res = self._dl_init_response(self.exchange(req, step="dl_init"), mux, "dl_init")
        if res[0] != "ok":
            return res
        pos, toggle = 0, 0
        sizes = list(seg_sizes or [])
        while True:
            k = sizes.pop(0) if sizes else 7
            chunk = data[pos:pos + k]
            pos += len(chunk)
            last = pos >= len(data)
            b0 = (toggle << 4) | ((7 - len(chunk)) << 1) | (1 if last else 0)
            r = self.exchange(bytes([b0]) + chunk.ljust(7, b"\x00"), step="dl_seg")
            if r is None:
                return ("violation", "no-response")
            if r[0] == 0x80:
                return self._abort_info(r, mux, "dl_seg_last" if last else "dl_seg")
            if r[0] >> 5 != 1:
                self._v("server-wrong-specifier", f"download segment answered with command byte {r[0]:#x}")
                return ("violation", "wrong-specifier")
            self.steps_seen.add("dl_seg_last" if last else "dl_seg")
            if (r[0] >> 4) & 1 != toggle:
                self._v("server-toggle", f"download segment response toggle {(r[0] >> 4) & 1}, expected {toggle}")
            if r[0] & 0x0F or any(r[1:]):
                self._v("server-reserved-bytes-nonzero", f"download segment response {r.hex()}")
            toggle ^= 1
            if last:
                return ("ok", None)

    def _dl_init_response(self, r, mux, step):
        if r is None:
            return ("violation", "no-response")
        if r[0] == 0x80:
            return self._abort_info(r, mux, step)
        b0, rindex, rsub = struct.unpack_from("<BHB", r)
        if b0 >> 5 != 3:
            self._v("server-wrong-specifier", f"initiate download answered with command byte {b0:#x}")
            return ("violation", "wrong-specifier")
        self.steps_seen.add(step)
        if (rindex, rsub) != tuple(mux):
            self._v("server-wrong-multiplexer", f"initiate download response for {rindex:#06x}:{rsub:02x} instead of {mux[0]:#06x}:{mux[1]:02x}")
        if b0 != 0x60 or any(r[4:]):
            self._v("server-reserved-bytes-nonzero", f"initiate download response {r.hex()}")
        return ("ok", None)

    # ------------------------------------------------------------------ misc
    def abort(self, index, sub, code):
        self.exchange(struct.pack("<BHBL", 0x80, index, sub, code), expect_response=False, step="abort")

    def raw(self, frame):
        """Arbitrary frame: only the generic rules apply (one 8-byte response unless it is an abort)."""
        frame = bytes(frame)
        is_abort = frame[0] >> 5 == 4
        r = self.exchange(frame, expect_response=not is_abort, step="raw")
        return r
