"""Reference CiA 301 data type codec (stdlib only, never imports canopen).

Own transcription of the CiA 301 data type indices (object 0001h..001Bh) and of
the encoding rules: integers little-endian two's complement in width/8 bytes,
BOOLEAN one byte 0/1, REAL32/REAL64 IEEE 754 little-endian, VISIBLE_STRING
ASCII, UNICODE_STRING UTF-16-LE, OCTET_STRING/DOMAIN raw bytes.
"""
import struct

BOOLEAN, INTEGER8, INTEGER16, INTEGER32 = 0x01, 0x02, 0x03, 0x04
UNSIGNED8, UNSIGNED16, UNSIGNED32, REAL32 = 0x05, 0x06, 0x07, 0x08
VISIBLE_STRING, OCTET_STRING, UNICODE_STRING = 0x09, 0x0A, 0x0B
DOMAIN = 0x0F
INTEGER24, REAL64, INTEGER40, INTEGER48, INTEGER56, INTEGER64 = 0x10, 0x11, 0x12, 0x13, 0x14, 0x15
UNSIGNED24, UNSIGNED40, UNSIGNED48, UNSIGNED56, UNSIGNED64 = 0x16, 0x18, 0x19, 0x1A, 0x1B

SIGNED = {INTEGER8: 8, INTEGER16: 16, INTEGER24: 24, INTEGER32: 32,
          INTEGER40: 40, INTEGER48: 48, INTEGER56: 56, INTEGER64: 64}
UNSIGNED = {UNSIGNED8: 8, UNSIGNED16: 16, UNSIGNED24: 24, UNSIGNED32: 32,
            UNSIGNED40: 40, UNSIGNED48: 48, UNSIGNED56: 56, UNSIGNED64: 64}
INTEGERS = {**SIGNED, **UNSIGNED}
REALS = {REAL32: 32, REAL64: 64}
NUMERIC = {**INTEGERS, **REALS}
STRINGS = (VISIBLE_STRING, UNICODE_STRING)
BLOBS = (OCTET_STRING, DOMAIN)

NAMES = {
    BOOLEAN: "BOOLEAN", INTEGER8: "INTEGER8", INTEGER16: "INTEGER16", INTEGER24: "INTEGER24",
    INTEGER32: "INTEGER32", INTEGER40: "INTEGER40", INTEGER48: "INTEGER48", INTEGER56: "INTEGER56",
    INTEGER64: "INTEGER64", UNSIGNED8: "UNSIGNED8", UNSIGNED16: "UNSIGNED16", UNSIGNED24: "UNSIGNED24",
    UNSIGNED32: "UNSIGNED32", UNSIGNED40: "UNSIGNED40", UNSIGNED48: "UNSIGNED48", UNSIGNED56: "UNSIGNED56",
    UNSIGNED64: "UNSIGNED64", REAL32: "REAL32", REAL64: "REAL64", VISIBLE_STRING: "VISIBLE_STRING",
    OCTET_STRING: "OCTET_STRING", UNICODE_STRING: "UNICODE_STRING", DOMAIN: "DOMAIN",
}
ALL_TYPES = tuple(NAMES)


def width(dt):
    """Bit width of a fixed-size type (BOOLEAN is transferred as one byte)."""
    if dt == BOOLEAN:
        return 8
    return NUMERIC[dt]


def int_range(dt):
    if dt in SIGNED:
        w = SIGNED[dt]
        return -(1 << (w - 1)), (1 << (w - 1)) - 1
    w = UNSIGNED[dt]
    return 0, (1 << w) - 1


def in_range(dt, v):
    lo, hi = int_range(dt)
    return lo <= v <= hi


def encode(dt, v):
    if dt in INTEGERS:
        w = INTEGERS[dt]
        if not in_range(dt, v):
            raise OverflowError(f"{v} does not fit {NAMES[dt]}")
        return int(v).to_bytes(w // 8, "little", signed=dt in SIGNED)
    if dt == BOOLEAN:
        return b"\x01" if v else b"\x00"
    if dt == REAL32:
        return struct.pack("<f", v)
    if dt == REAL64:
        return struct.pack("<d", v)
    if dt == VISIBLE_STRING:
        return v.encode("ascii")
    if dt == UNICODE_STRING:
        return v.encode("utf-16-le")
    if dt in BLOBS:
        return bytes(v)
    raise KeyError(dt)


def decode(dt, b):
    b = bytes(b)
    if dt in INTEGERS:
        if len(b) * 8 != INTEGERS[dt]:
            raise ValueError("length")
        return int.from_bytes(b, "little", signed=dt in SIGNED)
    if dt == BOOLEAN:
        if len(b) != 1:
            raise ValueError("length")
        return b != b"\x00"
    if dt == REAL32:
        return struct.unpack("<f", b)[0]
    if dt == REAL64:
        return struct.unpack("<d", b)[0]
    if dt == VISIBLE_STRING:
        return b.decode("ascii")
    if dt == UNICODE_STRING:
        return b.decode("utf-16-le")
    return b


def boundary_ints(dt, extra_rng=None, n_random=0):
    """Range ends +-2, every power of two +-2 (both signs), 0, -1, 1 - clipped to range."""
    lo, hi = int_range(dt)
    w = INTEGERS[dt]
    vals = set()
    for k in range(w + 1):
        for d in (-2, -1, 0, 1, 2):
            vals.add((1 << k) + d)
            vals.add(-(1 << k) + d)
    for d in range(-2, 3):
        vals.update((lo + d, hi + d, d))
    if extra_rng is not None:
        for _ in range(n_random):
            vals.add(extra_rng.randint(lo, hi))
            vals.add(extra_rng.randint(lo, hi) >> extra_rng.randint(0, w - 1))
    return sorted(v for v in vals if lo <= v <= hi)


def out_of_range_ints(dt):
    lo, hi = int_range(dt)
    w = INTEGERS[dt]
    vals = {lo - 1, lo - 2, hi + 1, hi + 2, hi + 256, lo - 256, (1 << w), (1 << w) + 1, -(1 << w), (1 << 64), -(1 << 64) - 1,
            (1 << (w + 3)) + 5, hi * 2 + 1 if hi else 7}
    if dt in UNSIGNED:
        vals.update({-1, -2, -128, -(1 << (w - 1))})
    else:
        vals.update({1 << (w - 1), (1 << w) - 1})
    return sorted(v for v in vals if not (lo <= v <= hi))


def float_specials():
    return [0.0, -0.0, 1.0, -1.0, 0.1, -0.1, 1.5, 3.141592653589793, 1e-45, 1.401298464324817e-45,
            1.1754943508222875e-38, 3.4028234663852886e38, -3.4028234663852886e38, 5e-324, 2.2250738585072014e-308,
            1.7976931348623157e308, -1.7976931348623157e308, float("inf"), float("-inf"), 65504.0, 1e10, -123456.789]


def same_float(a, b):
    """Bitwise equality (so NaN == NaN and +0.0 != -0.0)."""
    return struct.pack("<d", a) == struct.pack("<d", b)


def crc16_xmodem(data, crc=0):
    """CRC-16/XMODEM (poly 0x1021, init 0) as used by SDO block transfer."""
    for byte in bytes(data):
        crc ^= byte << 8
        for _ in range(8):
            crc = ((crc << 1) ^ 0x1021) & 0xFFFF if crc & 0x8000 else (crc << 1) & 0xFFFF
    return crc
