"""Reference CiA 402 drive (power state machine), stdlib only.

Own transcription of the CiA 402 state machine: states, statusword patterns,
controlword commands and transitions 1-16.  Automatic transitions 1 (NOT READY
TO SWITCH ON -> SWITCH ON DISABLED) and 14 (FAULT REACTION ACTIVE -> FAULT)
happen after a configurable number of status reads / ticks.
"""
NRTSO, SOD, RTSO, SO, OE, QSA, FRA, FAULT = ("NOT READY TO SWITCH ON", "SWITCH ON DISABLED", "READY TO SWITCH ON", "SWITCHED ON",
                                             "OPERATION ENABLED", "QUICK STOP ACTIVE", "FAULT REACTION ACTIVE", "FAULT")
STATES = (NRTSO, SOD, RTSO, SO, OE, QSA, FRA, FAULT)
# statusword bits 6,5,3,2,1,0 per state (bit 5 = quick stop, set unless quick stop is active)
SW_BASE = {NRTSO: 0x0000, SOD: 0x0040, RTSO: 0x0021, SO: 0x0023, OE: 0x0027, QSA: 0x0007, FRA: 0x000F, FAULT: 0x0008}
EXTRA_BITS = 0xFF90            # bits that do not take part in the state encoding (4, 7, 8..15)
# bit 5 is "don't care" in NRTSO / SOD / FRA / FAULT
DONT_CARE = {NRTSO: 0x20, SOD: 0x20, FRA: 0x20, FAULT: 0x20}

MODE_CODES = {"NO MODE": 0, "PROFILED POSITION": 1, "VELOCITY": 2, "PROFILED VELOCITY": 3, "PROFILED TORQUE": 4, "HOMING": 6,
              "INTERPOLATED POSITION": 7, "CYCLIC SYNCHRONOUS POSITION": 8, "CYCLIC SYNCHRONOUS VELOCITY": 9,
              "CYCLIC SYNCHRONOUS TORQUE": 10}
MODE_SUPPORT_BIT = {"NO MODE": 0, "PROFILED POSITION": 1 << 0, "VELOCITY": 1 << 1, "PROFILED VELOCITY": 1 << 2, "PROFILED TORQUE": 1 << 3,
                    "HOMING": 1 << 5, "INTERPOLATED POSITION": 1 << 6, "CYCLIC SYNCHRONOUS POSITION": 1 << 7,
                    "CYCLIC SYNCHRONOUS VELOCITY": 1 << 8, "CYCLIC SYNCHRONOUS TORQUE": 1 << 9}


def decode_statusword(sw):
    """Own transcription of the CiA 402 statusword table."""
    if sw & 0x4F == 0x00:
        return NRTSO
    if sw & 0x4F == 0x40:
        return SOD
    if sw & 0x6F == 0x21:
        return RTSO
    if sw & 0x6F == 0x23:
        return SO
    if sw & 0x6F == 0x27:
        return OE
    if sw & 0x6F == 0x07:
        return QSA
    if sw & 0x4F == 0x0F:
        return FRA
    if sw & 0x4F == 0x08:
        return FAULT
    return "UNKNOWN"


class Drive402:
    def __init__(self, state=SOD, auto_delay=0, extra=0, mode_delay=0, supported=0x3FF):
        self.state = state
        self.auto_delay = auto_delay      # status reads/ticks before an automatic transition fires
        self._auto_count = 0
        self.extra = extra & EXTRA_BITS
        self.dont_care = 0
        self.last_cw = 0
        self.controlwords = []
        self.trace = [state]              # state trace
        self.transitions = []             # (from, to, transition number, controlword)
        self.status_reads = 0
        self.mode = 0
        self.mode_display = 0
        self.mode_delay = mode_delay
        self._mode_pending = None
        self.mode_writes = []
        self.supported = supported
        self.on_change = None             # callable() when the statusword changed (PDO transport)
        self.qsa_auto = False             # quick stop option code "stay" (False) or "then disable" (True)
        self.fault_cause_present = False  # while the cause of a fault persists a fault reset is not accepted (CiA 402)

    # ---- status
    def statusword(self):
        return SW_BASE[self.state] | self.extra | (DONT_CARE.get(self.state, 0) & self.dont_care)

    def _goto(self, new, number, cw=None):
        self.transitions.append((self.state, new, number, cw))
        self.state = new
        self.trace.append(new)
        self._auto_count = 0
        if self.on_change:
            self.on_change()

    def _auto(self):
        if self.state == QSA and self.qsa_auto:
            # quick stop completed: the drive leaves QUICK STOP ACTIVE on its own (transition 12 without a command)
            if self._auto_count >= self.auto_delay:
                self._goto(SOD, 12)
            else:
                self._auto_count += 1
        if self.state in (NRTSO, FRA):
            if self._auto_count >= self.auto_delay:
                self._goto(SOD if self.state == NRTSO else FAULT, 1 if self.state == NRTSO else 14)
            else:
                self._auto_count += 1
        if self._mode_pending is not None:
            n, code = self._mode_pending
            if n <= 0:
                self.mode_display = code
                self._mode_pending = None
                if self.on_change:
                    self.on_change()
            else:
                self._mode_pending = (n - 1, code)

    def read_status(self):
        """A status read by the master (SDO upload of 0x6041) or a tick."""
        self.status_reads += 1
        sw = self.statusword()
        self._auto()
        return sw

    tick = read_status

    # ---- things that happen to a drive on its own
    def fault(self):
        """An internal fault: transition 13 from any state (the reaction ends in FAULT by transition 14)."""
        if self.state not in (FRA, FAULT):
            self._goto(FRA, 13)

    def power_cycle(self):
        """Supply lost and restored: the drive restarts in NOT READY TO SWITCH ON and has forgotten the controlword."""
        self.last_cw = 0
        self._goto(NRTSO, 0)

    # ---- commands
    def write_controlword(self, cw):
        self.controlwords.append(cw)
        rising_reset = bool(cw & 0x80) and not (self.last_cw & 0x80)
        self.last_cw = cw
        s = self.state
        b = cw & 0x0F
        shutdown = (b & 0x7) == 0x6           # 0xx110
        switch_on = (b & 0xF) == 0x7          # 0x0111
        enable_op = (b & 0xF) == 0xF          # 0x1111
        disable_voltage = (b & 0x2) == 0      # 0xxx0x
        quick_stop = (b & 0x6) == 0x2         # 0xx01x
        if cw & 0x80:
            if s == FAULT and rising_reset and not self.fault_cause_present:
                self._goto(SOD, 15, cw)
            return
        if s == SOD:
            if shutdown:
                self._goto(RTSO, 2, cw)
        elif s == RTSO:
            if disable_voltage or quick_stop:
                self._goto(SOD, 7, cw)
            elif switch_on:
                self._goto(SO, 3, cw)
            elif enable_op:
                self._goto(SO, 3, cw)
                self._goto(OE, 4, cw)
        elif s == SO:
            if disable_voltage or quick_stop:
                self._goto(SOD, 10, cw)
            elif shutdown:
                self._goto(RTSO, 6, cw)
            elif enable_op:
                self._goto(OE, 4, cw)
        elif s == OE:
            if disable_voltage:
                self._goto(SOD, 9, cw)
            elif quick_stop:
                self._goto(QSA, 11, cw)
            elif shutdown:
                self._goto(RTSO, 8, cw)
            elif switch_on:
                self._goto(SO, 5, cw)
        elif s == QSA:
            if disable_voltage:
                self._goto(SOD, 12, cw)
            elif enable_op:
                self._goto(OE, 16, cw)

    def write_mode(self, code):
        self.mode_writes.append(code)
        self.mode = code
        self._mode_pending = (self.mode_delay, code)
        if self.mode_delay == 0:
            self.mode_display = code
            self._mode_pending = None
            if self.on_change:
                self.on_change()
