"""Fault plans for SimBus.fault: functions frame -> list of frames to deliver (None = unchanged)."""
from __future__ import annotations


class OneShot:
    """Apply ``action(frame) -> [frames]`` to the k-th (0-based) frame matching ``pred``; once."""

    def __init__(self, pred, k, action):
        self.pred, self.k, self.action = pred, k, action
        self.n = 0
        self.fired = False
        self.hit = None

    def __call__(self, frame):
        if self.pred(frame):
            i = self.n
            self.n += 1
            if i == self.k and not self.fired:
                self.fired = True
                self.hit = frame
                return self.action(frame)
        return None


class Multi:
    """Apply ``action`` to every matching frame whose ordinal is in ``ks``."""

    def __init__(self, pred, ks, action):
        self.pred, self.ks, self.action = pred, set(ks), action
        self.n = 0
        self.hits = []

    def __call__(self, frame):
        if self.pred(frame):
            i = self.n
            self.n += 1
            if i in self.ks:
                self.hits.append(frame)
                return self.action(frame)
        return None


def drop(frame):
    return []


def duplicate(frame):
    return [frame, frame.replace()]


def replace_data(data):
    return lambda frame: [frame.replace(data=data)]


def flip_bit(byte, bit):
    def act(frame):
        d = bytearray(frame.data)
        d[byte] ^= 1 << bit
        return [frame.replace(data=bytes(d))]
    return act
