"""Attribute-by-attribute comparison of a real canopen ObjectDictionary with an OdM model."""
from __future__ import annotations

from canmon.ref import codec as R


def same_value(dt, got, want):
    if want is None or got is None:
        return got is None and want is None
    if dt in R.REALS:
        return isinstance(got, float) and R.same_float(got, float(want))
    if dt in R.BLOBS:
        return isinstance(got, (bytes, bytearray)) and bytes(got) == bytes(want)
    if dt in R.STRINGS:
        return got == want
    if dt == R.BOOLEAN:
        return int(got) == int(want)
    return isinstance(got, int) and not isinstance(got, bool) and got == want


def compare(ctx, model, od, case, prefix, dcf=False, node_known=True, check_value=True, check_names_of_compact=True,
            check_relative=True, check_device=True, expect_node_id=None, expect_bitrate=None, check_node=False):
    from canopen import objectdictionary as OD

    def bad(mech, msg):
        ctx.violation(f"{prefix}:{mech}", msg, case)

    ctx.count(prefix + ".dictionaries_compared")
    got_idx = set(od.indices)
    want_idx = set(model.objects)
    if got_idx != want_idx:
        bad("object-set", f"objects missing {sorted(hex(i) for i in want_idx - got_idx)}, unexpected {sorted(hex(i) for i in got_idx - want_idx)}")
    for index in sorted(want_idx & got_idx):
        o = model.objects[index]
        e = od[index]
        cls = {"var": OD.ODVariable, "record": OD.ODRecord, "array": OD.ODArray}[o.kind]
        if type(e) is not cls:
            bad("kind", f"{index:#06x} is a {type(e).__name__}, described as {o.kind}")
            continue
        if e.name != o.name:
            bad("name", f"{index:#06x} is named {e.name!r}, described as {o.name!r}")
        if e.index != index:
            bad("index", f"object at {index:#06x} says index {e.index:#x}")
        if od[o.name] is not e and o.name in od.names and od.names[o.name].index == index:
            bad("lookup-by-name", f"od[{o.name!r}] is not od[{index:#06x}]")
        if o.kind != "var" and getattr(e, "storage_location", None) != o.storage:
            bad("storage-location", f"{index:#06x} storage location {e.storage_location!r}, described {o.storage!r}")
        members = [(0, o.var, e)] if o.kind == "var" else []
        if o.kind != "var":
            if not o.compact and set(e.subindices) != set(o.members):
                bad("sub-index-set", f"{index:#06x} has sub-indices {sorted(e.subindices)}, described {sorted(o.members)}")
            for s in sorted(o.members):
                try:
                    members.append((s, o.members[s], e[s]))
                except KeyError:
                    bad("sub-index-missing", f"{index:#06x} sub {s} cannot be looked up")
        for s, vm, ev in members:
            where = f"{index:#06x}:{s:02x} ({R.NAMES.get(vm.dt, vm.dt)})"
            ctx.count(prefix + ".variables_compared")
            compact_member = o.kind == "array" and o.compact
            if ev.index != index or ev.subindex != s:
                bad("address", f"{where} carries address {ev.index:#x}:{ev.subindex}")
            if compact_member and s == 0:
                if ev.data_type != R.UNSIGNED8:
                    bad("compact-count-type", f"{where} count entry has data type {ev.data_type}")
                continue
            if (not compact_member or (check_names_of_compact and o.compact_names)) and ev.name != vm.name:
                bad("member-name" if s or o.kind != "var" else "name", f"{where} is named {ev.name!r}, described as {vm.name!r}")
            if ev.data_type != vm.dt:
                bad("data-type", f"{where} has data type {ev.data_type!r}, described {vm.dt}")
                continue
            if ev.access_type != vm.access:
                bad("access-type", f"{where} access type {ev.access_type!r}, described {vm.access!r}")
            if bool(ev.pdo_mappable) != bool(vm.pdo):
                bad("pdo-mapping", f"{where} pdo_mappable {ev.pdo_mappable!r}, described {vm.pdo!r}")
            resolvable = node_known or vm.default_rel is None
            if resolvable and not same_value(vm.dt, ev.default, vm.default):
                cls_ = "negative" if isinstance(vm.default, int) and not isinstance(vm.default, bool) and vm.default < 0 else "relative" if vm.default_rel is not None else R.NAMES.get(vm.dt, "?")
                bad(f"default:{cls_}", f"{where} default {ev.default!r}, described {vm.default!r}")
            if dcf and check_value and (node_known or vm.value_rel is None) and not same_value(vm.dt, ev.value, vm.value):
                bad("parameter-value", f"{where} parameter value {ev.value!r}, described {vm.value!r}")
            if not compact_member:
                for attr, want in (("min", vm.lo), ("max", vm.hi)):
                    if getattr(ev, attr) != want:
                        w = R.INTEGERS.get(vm.dt)
                        bad(f"limit:{'signed' if vm.dt in R.SIGNED else 'unsigned'}:{'odd-width' if w in (24, 40, 48, 56) else 'std-width'}",
                            f"{where} {attr} = {getattr(ev, attr)!r}, described {want!r}")
                if check_relative and vm.default_rel is not None and not ev.relative:
                    bad("relative-flag", f"{where} default is $NODEID-relative but relative = {ev.relative!r}")
                if (ev.storage_location or None) != (vm.storage or None):
                    bad("storage-location", f"{where} storage location {ev.storage_location!r}, described {vm.storage!r}")
                if ev.factor != vm.factor or (ev.unit or "") != (vm.unit or "") or (ev.description or "") != (vm.description or ""):
                    bad("factor-unit-description", f"{where} factor/unit/description {(ev.factor, ev.unit, ev.description)!r}, described {(vm.factor, vm.unit, vm.description)!r}")
            # lookups
            if o.kind != "var" and not (compact_member and not o.compact_names):
                try:
                    if od[f"{o.name}.{ev.name}"] is not od[index][ev.name] and not compact_member:
                        bad("lookup-dotted", f"od['{o.name}.{ev.name}'] is not od[{index:#x}][{ev.name!r}]")
                    if not compact_member and od[index][ev.name] is not ev:
                        bad("lookup-member-by-name", f"od[{index:#x}][{ev.name!r}] is not od[{index:#x}][{s}]")
                except KeyError as exc:
                    bad("lookup-dotted", f"lookup of {o.name}.{ev.name} failed: {exc}")
    if check_device and model.device_info is not None:
        di = od.device_information
        for attr, want in model.device_info.items():
            got = getattr(di, attr, None)
            if attr == "allowed_baudrates":
                ok = set(got) == set(want)
            else:
                ok = got == want and type(got) is type(want)
            if not ok:
                bad(f"device-info:{attr}", f"device_information.{attr} = {got!r} ({type(got).__name__}), described {want!r} ({type(want).__name__})")
        if od.comments != (model.comments or ""):
            bad("comments", f"comments {od.comments!r}, described {model.comments!r}")
    if check_node:
        if od.node_id != expect_node_id:
            bad("node-id", f"od.node_id = {od.node_id!r}, expected {expect_node_id!r}")
        if od.bitrate != expect_bitrate:
            bad("bitrate", f"od.bitrate = {od.bitrate!r}, expected {expect_bitrate!r}")
