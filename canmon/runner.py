"""Runner: tiers, seeds, sharding, verdict folding, evidence, replays, known findings.

  ./check C07 [--tier quick|thorough] [--seed N] [--replay FILE] [--jobs N]

Exit 0: property held on everything explored (known findings are printed as
        KNOWN-FINDING lines).
Exit 1: at least one violation that known_findings.json does not list; one
        line "VIOLATION property=<id> replay=<path>" per distinct mechanism.
Exit 2: inconclusive (deciding monitor not reached, shard crashed or timed out);
        never printed as a violation.
"""
from __future__ import annotations

import argparse
import concurrent.futures
import hashlib
import importlib
import json
import os
import subprocess
import sys
import tempfile
import time
import traceback

from canmon.core import Ctx, jsonable

ROOT = os.path.dirname(os.path.dirname(os.path.abspath(__file__)))
REPO = os.environ.get("CANMON_REPO", "/repo")


def load_prop(pid):
    return importlib.import_module("canmon.props." + pid.lower())


def assert_repo():
    import canopen
    path = os.path.realpath(canopen.__file__)
    if not path.startswith(os.path.realpath(REPO) + os.sep):
        print(f"INCONCLUSIVE reason=canopen imported from {path}, not from {REPO}")
        sys.exit(2)


# --------------------------------------------------------------------------- worker
def worker(pid, desc_file, out_file):
    import faulthandler
    faulthandler.enable()
    assert_repo()
    prop = load_prop(pid)
    with open(desc_file) as fh:
        job = json.load(fh)
    ctx = Ctx(pid, job["tier"], job["seed"], job["shard"])
    watchdog = job.get("timeout")
    if watchdog:
        faulthandler.dump_traceback_later(max(1, watchdog - 2), exit=False)

        def save_partial():
            # a shard that runs into its time limit keeps what its monitors recorded so far (violations are
            # observations of real executions; the unfinished rest makes the run inconclusive, never "held")
            time.sleep(max(1, watchdog - 10))
            for _ in range(20):
                try:
                    res = ctx.result()
                    res["crash"] = f"shard still running after {watchdog - 10} s: partial results kept"
                    with open(out_file, "w") as fh:
                        json.dump(res, fh)
                    break
                except Exception:  # noqa: BLE001 - the workload thread is mutating the context; try again
                    time.sleep(0.05)
            sys.stdout.flush()
            os._exit(0)
        import threading
        threading.Thread(target=save_partial, daemon=True).start()
    try:
        if job.get("replay_case") is not None:
            prop.replay(ctx, job["replay_case"])
        else:
            prop.run(ctx, job["desc"])
        res = ctx.result()
    except BaseException as exc:  # harness failure, not a verdict
        res = ctx.result()
        res["crash"] = "".join(traceback.format_exception(type(exc), exc, exc.__traceback__))[-4000:]
    with open(out_file, "w") as fh:
        json.dump(res, fh)
    # daemon threads of the library (python-can notifiers etc.) must not keep us alive
    sys.stdout.flush()
    os._exit(0)


def run_shard(pid, job, timeout):
    work = os.path.join(ROOT, ".work")
    os.makedirs(work, exist_ok=True)
    fd, desc_file = tempfile.mkstemp(prefix=f"{pid}-", suffix=".job.json", dir=work)
    os.close(fd)
    out_file = desc_file[:-9] + ".out.json"
    job = dict(job, timeout=timeout)
    with open(desc_file, "w") as fh:
        json.dump(job, fh)
    cmd = [sys.executable, "-B", "-m", "canmon.runner", "--worker", pid,
           "--desc-file", desc_file, "--out", out_file]
    t0 = time.time()
    try:
        proc = subprocess.run(cmd, cwd=ROOT, timeout=timeout, capture_output=True, text=True)
        err = proc.stderr[-3000:]
        rc = proc.returncode
    except subprocess.TimeoutExpired as exc:
        err = (exc.stderr or b"")
        err = err.decode("utf-8", "replace")[-3000:] if isinstance(err, bytes) else str(err)[-3000:]
        rc = "timeout"
    res = None
    if os.path.exists(out_file):
        try:
            with open(out_file) as fh:
                res = json.load(fh)
        except Exception:  # noqa: BLE001
            res = None
    for f in (desc_file, out_file):
        try:
            os.unlink(f)
        except OSError:
            pass
    if res is None:
        res = {"crash": f"shard produced no result (rc={rc}); stderr tail: {err}"}
    res["wall_s"] = time.time() - t0
    res["shard"] = job["shard"]
    return res


# --------------------------------------------------------------------------- folding
def fold(results):
    tot = {"evaluations": 0, "signatures": set(), "violations": [], "violation_counts": {},
           "inconclusive": [], "inconclusive_count": 0, "monitors": {}, "samples": [],
           "sets": {}, "extra": {}, "crashes": []}
    for r in results:
        if r.get("crash"):
            tot["crashes"].append({"shard": r.get("shard"), "what": r["crash"]})
        tot["evaluations"] += r.get("evaluations", 0)
        tot["signatures"].update(r.get("signatures", []))
        tot["violations"].extend(r.get("violations", []))
        for k, v in r.get("violation_counts", {}).items():
            tot["violation_counts"][k] = tot["violation_counts"].get(k, 0) + v
        tot["inconclusive"].extend(r.get("inconclusive", []))
        tot["inconclusive_count"] += r.get("inconclusive_count", 0)
        for k, v in r.get("monitors", {}).items():
            tot["monitors"][k] = tot["monitors"].get(k, 0) + v
        for k, v in r.get("extra", {}).items():
            tot["extra"][k] = tot["extra"].get(k, 0) + v
        for k, v in r.get("sets", {}).items():
            tot["sets"].setdefault(k, set()).update(v)
    # samples: round-robin over shards so that every workload kind is represented
    per_shard = [list(r.get("samples", [])) for r in results]
    while any(per_shard):
        for lst in per_shard:
            if lst:
                tot["samples"].append(lst.pop(0))
    return tot


def load_known(pid):
    path = os.path.join(ROOT, "known_findings.json")
    try:
        with open(path) as fh:
            data = json.load(fh)
    except FileNotFoundError:
        return []
    return [f for f in data.get("findings", []) if f.get("property") == pid]


def write_replay(pid, tier, seed, viol, jobs=None):
    d = os.path.join(ROOT, "replays", pid)
    os.makedirs(d, exist_ok=True)
    body = {"property": pid, "tier": tier, "seed": seed, "mechanism": viol["mechanism"],
            "message": viol["message"], "case": viol.get("case"), "trace": viol.get("trace"),
            "shard": viol.get("shard")}
    if jobs is not None and isinstance(viol.get("shard"), int) and viol["shard"] < len(jobs):
        body["shard_desc"] = jobs[viol["shard"]].get("desc")     # lets --replay re-run the whole (deterministic) shard
    sha = hashlib.sha1(json.dumps(body, sort_keys=True).encode()).hexdigest()[:12]
    path = os.path.join(d, sha + ".json")
    with open(path, "w") as fh:
        json.dump(body, fh, indent=1, sort_keys=True)
    return path


# --------------------------------------------------------------------------- main
def main(argv=None):
    ap = argparse.ArgumentParser()
    ap.add_argument("prop", nargs="?")
    ap.add_argument("--tier", default=None)
    ap.add_argument("--seed", type=int, default=None)
    ap.add_argument("--replay", default=None)
    ap.add_argument("--jobs", type=int, default=None)
    ap.add_argument("--worker", default=None)
    ap.add_argument("--desc-file", default=None)
    ap.add_argument("--out", default=None)
    ap.add_argument("--no-evidence", action="store_true")
    args = ap.parse_args(argv)

    if args.worker:
        worker(args.worker, args.desc_file, args.out)
        return 0

    pid = args.prop.upper()
    tier = args.tier or os.environ.get("VERIF_TIER") or "quick"
    if tier not in ("quick", "thorough"):
        tier = "quick"
    seed = args.seed if args.seed is not None else int(os.environ.get("VERIF_SEED") or 0)
    assert_repo()
    prop = load_prop(pid)
    t0 = time.time()

    if args.replay:
        with open(args.replay) as fh:
            rep = json.load(fh)
        stateless = getattr(prop, "REPLAY_CASES", True) and rep.get("case") is not None and not rep.get("force_shard")
        jobs = [{"tier": rep.get("tier", tier), "seed": rep.get("seed", seed), "shard": rep.get("shard", 0),
                 "desc": None, "replay_case": rep["case"]}]
        if rep.get("shard_desc") is not None:
            # also re-run the shard the witness came from (histories are stateful; generators are pure functions of the descriptor)
            jobs.append({"tier": rep.get("tier", tier), "seed": rep.get("seed", seed), "shard": rep.get("shard", 0),
                         "desc": rep["shard_desc"]})
        tier, seed = jobs[0]["tier"], jobs[0]["seed"]
    else:
        descs = prop.plan(tier, seed)
        jobs = [{"tier": tier, "seed": seed, "shard": i, "desc": d} for i, d in enumerate(descs)]

    timeout = getattr(prop, "SHARD_TIMEOUT", {}).get(tier, 240 if tier == "quick" else 3600)
    njobs = args.jobs or min(16, max(1, len(jobs)), os.cpu_count() or 1)
    with concurrent.futures.ThreadPoolExecutor(njobs) as ex:
        results = list(ex.map(lambda j: run_shard(pid, j, timeout), jobs))
    tot = fold(results)
    wall = time.time() - t0

    known = load_known(pid)
    known_by_mech = {k["mechanism"]: k for k in known}
    unknown_mechs, known_hit = {}, {}
    for v in tot["violations"]:
        (known_hit if v["mechanism"] in known_by_mech else unknown_mechs).setdefault(v["mechanism"], v)
    for m in tot["violation_counts"]:
        if m not in known_by_mech and m not in unknown_mechs:
            unknown_mechs[m] = {"mechanism": m, "message": "(witness dropped by cap)", "case": None}

    # ---- inconclusive conditions
    reasons = []
    if tot["crashes"]:
        reasons.append(f"{len(tot['crashes'])} shard(s) crashed or timed out: {tot['crashes'][0]['what'][-400:]!r}")
    required = getattr(prop, "REQUIRED", {})
    if callable(required):
        required = required(tier)
    if not args.replay:
        for mon, minimum in required.items():
            if tot["monitors"].get(mon, 0) < minimum:
                reasons.append(f"monitor {mon} evaluated {tot['monitors'].get(mon, 0)} < {minimum} times")
        if tot["evaluations"] and tot["inconclusive_count"] > 0.02 * tot["evaluations"] + 2:
            reasons.append(f"{tot['inconclusive_count']} of {tot['evaluations']} cases inconclusive: "
                           f"{tot['inconclusive'][:2]}")
        if len(tot["signatures"]) < 2:
            reasons.append("fewer than 2 distinct non-trivial cases")

    # ---- evidence
    if not args.replay and not args.no_evidence:
        level = getattr(prop, "LEVEL", "exploration")
        samples = tot["samples"][:12] or [{"note": "no sample recorded"}]
        coverage = {
            "evaluations": tot["evaluations"],
            "distinct_nontrivial": len(tot["signatures"]),
            "rule": getattr(prop, "RULE", ""),
            "samples": samples,
            "monitor_evaluations": tot["monitors"],
            "distinct_seen": {k: {"count": len(v), "values": sorted(v, key=repr)[:60]} for k, v in tot["sets"].items()},
            "counters": tot["extra"],
            "inconclusive_cases": tot["inconclusive_count"],
            "inconclusive_samples": tot["inconclusive"][:3],
            "known_findings_hit": {m: tot["violation_counts"].get(m, 0) for m in known_hit},
            "unlisted_violation_mechanisms": {m: tot["violation_counts"].get(m, 0) for m in unknown_mechs},
            "shards": len(jobs),
            "signature_examples": sorted(tot["signatures"])[:25],
            "verdict": ("violated" if unknown_mechs else "inconclusive" if reasons else "held"),
            "inconclusive_reasons": reasons,
        }
        exh = getattr(prop, "EXHAUSTIVE", None)
        if exh:
            coverage["exhaustive_subspaces"] = exh if not callable(exh) else exh(tier)
        ev = {
            "property_id": pid, "tier": tier, "seed": seed, "level": level,
            "coverage": coverage,
            "assumptions": list(getattr(prop, "ASSUMPTIONS", [])),
            "wall_s": round(wall, 3),
            "violations": sum(tot["violation_counts"].get(m, 0) for m in unknown_mechs),
        }
        os.makedirs(os.path.join(ROOT, "evidence"), exist_ok=True)
        with open(os.path.join(ROOT, "evidence", pid + ".json"), "w") as fh:
            json.dump(jsonable(ev), fh, indent=1, sort_keys=True)

    # ---- report
    print(f"[{pid}] tier={tier} seed={seed} shards={len(jobs)} evaluations={tot['evaluations']} "
          f"distinct_nontrivial={len(tot['signatures'])} wall={wall:.1f}s")
    print(f"[{pid}] monitors: " + ", ".join(f"{k}={v}" for k, v in sorted(tot["monitors"].items())))
    for k in known:
        n = tot["violation_counts"].get(k["mechanism"], 0)
        print(f"KNOWN-FINDING: property={pid} {k['mechanism']}: {k.get('what', '')} "
              f"({'observed %d times' % n if n else 'not exercised in this run'})")
    if unknown_mechs:
        for m, v in sorted(unknown_mechs.items()):
            path = write_replay(pid, tier, seed, v, jobs)
            print(f"VIOLATION property={pid} replay={path}")
            print(f"  mechanism={m} count={tot['violation_counts'].get(m, 0)}")
            print(f"  {v['message'][:600]}")
        return 1
    if reasons:
        for r in reasons:
            print(f"INCONCLUSIVE property={pid} reason={r}")
        return 2
    if args.replay:
        print(f"[{pid}] replay: no violation reproduced (case replay{' and shard re-run' if len(jobs) > 1 else ''})")
    else:
        print(f"[{pid}] held on everything explored")
    return 0


if __name__ == "__main__":
    sys.exit(main())
