"""Recording context shared by all property modules.

A property module drives workloads and calls into a ``Ctx`` to record what its
monitors observed.  Nothing here decides anything about canopen; it only keeps
counts, distinct signatures, samples, violations (with witnesses) and
inconclusive cases so that the runner can fold shards into one verdict and one
evidence file.
"""
from __future__ import annotations

import contextlib
import json
import random
import traceback


def jsonable(obj, depth=0):
    """Best-effort conversion of witnesses into JSON-serialisable data."""
    if depth > 8:
        return repr(obj)
    if obj is None or isinstance(obj, (bool, int, str)):
        return obj
    if isinstance(obj, float):
        if obj != obj or obj in (float("inf"), float("-inf")):
            return repr(obj)
        return obj
    if isinstance(obj, (bytes, bytearray, memoryview)):
        return "hex:" + bytes(obj).hex()
    if isinstance(obj, dict):
        return {str(k): jsonable(v, depth + 1) for k, v in obj.items()}
    if isinstance(obj, (list, tuple, set, frozenset)):
        seq = list(obj)
        if isinstance(obj, (set, frozenset)):
            try:
                seq = sorted(seq)
            except TypeError:
                seq = sorted(seq, key=repr)
        return [jsonable(v, depth + 1) for v in seq]
    return repr(obj)


class Ctx:
    MAX_WITNESS_PER_MECH = 5
    MAX_SAMPLES = 6

    def __init__(self, prop, tier, seed, shard=0):
        self.prop = prop
        self.tier = tier
        self.seed = seed
        self.shard = shard
        self.evaluations = 0
        self.signatures = set()
        self.violations = []          # witness dicts (capped per mechanism)
        self.violation_counts = {}    # mechanism -> count
        self.inconclusive = []
        self.inconclusive_count = 0
        self.monitors = {}
        self.samples = []
        self.sets = {}                # name -> set of hashables (distinct things seen)
        self.extra = {}               # free-form ints (summed when folding)

    # ---------------------------------------------------------------- rng
    def rng(self, *salt):
        return random.Random(repr((self.prop, self.seed, self.shard) + tuple(salt)))

    # ---------------------------------------------------------------- recording
    def case(self, signature=None, nontrivial=True):
        """One executed case.  ``signature`` is its structural class."""
        self.evaluations += 1
        if signature is not None and nontrivial:
            self.signatures.add(signature if isinstance(signature, str) else repr(signature))

    def count(self, monitor, n=1):
        self.monitors[monitor] = self.monitors.get(monitor, 0) + n

    def seen(self, name, value):
        self.sets.setdefault(name, set()).add(value if isinstance(value, (str, int)) else repr(value))

    def add(self, name, n=1):
        self.extra[name] = self.extra.get(name, 0) + n

    def sample(self, obj, force=False):
        if force or len(self.samples) < self.MAX_SAMPLES:
            self.samples.append(jsonable(obj))

    def violation(self, mechanism, message, case=None, trace=None):
        """A refuting observation.  ``mechanism`` is the discrete key that
        known findings are matched on (never a random value or a hash)."""
        n = self.violation_counts.get(mechanism, 0)
        self.violation_counts[mechanism] = n + 1
        if n < self.MAX_WITNESS_PER_MECH:
            self.violations.append({
                "mechanism": mechanism,
                "message": str(message)[:2000],
                "case": jsonable(case),
                "trace": jsonable(trace)[-80:] if isinstance(trace, (list, tuple)) else jsonable(trace),
                "shard": self.shard,
            })

    def inconc(self, reason, case=None):
        self.inconclusive_count += 1
        if len(self.inconclusive) < 10:
            self.inconclusive.append({"reason": str(reason)[:500], "case": jsonable(case)})

    @contextlib.contextmanager
    def guard(self, where, case=None, trace=None, expect=()):
        """Anything unexpected raised by the code under test inside the block
        is a violation (mechanism = exception type @ where), not a crash of
        the harness."""
        try:
            yield
        except expect:
            raise
        except Exception as exc:  # noqa: BLE001
            tb = traceback.extract_tb(exc.__traceback__)
            last = tb[-1] if tb else None
            loc = f"{last.filename.rsplit('/', 2)[-1]}:{last.name}" if last else "?"
            self.violation(f"unexpected-exception:{type(exc).__name__}@{where}",
                           f"{type(exc).__name__}: {exc} (raised in {loc})",
                           case, trace() if callable(trace) else trace)

    # ---------------------------------------------------------------- export
    def result(self):
        return {
            "evaluations": self.evaluations,
            "signatures": sorted(self.signatures),
            "violations": self.violations,
            "violation_counts": self.violation_counts,
            "inconclusive": self.inconclusive,
            "inconclusive_count": self.inconclusive_count,
            "monitors": self.monitors,
            "samples": self.samples,
            "sets": {k: sorted(v, key=repr) for k, v in self.sets.items()},
            "extra": self.extra,
        }


def dumps(obj):
    return json.dumps(jsonable(obj), sort_keys=True)
