"""C11 - NMT commands, states and heartbeats follow the CiA 301 state machine.

Master network (RemoteNode k, RemoteNode j, network.nmt), slave network
(LocalNode k), observer network (RemoteNode k) and an external station on one
inline SimBus.  Oracle: own transcription of the NMT tables; one model per view
of what that view can hear (no loopback: a network never hears its own frames).
NMT wire monitor: every frame on id 0 is exactly [cs, node].
"""
from __future__ import annotations

import itertools
import random
import threading
import time

from canmon import gen, rigs, simbus, waits

ID = "C11"
LEVEL = "exploration"
RULE = ("(1) all command sequences up to length 3 (quick) / 4 (thorough) over 11 command specifiers (7 defined, 4 undefined) x "
        "targets {own, 0, other}, sent as raw frames by an external station, all four views compared after every step; "
        "(2) random histories mixing API commands from each master object, state assignment by (valid and invalid) name on "
        "master and slave, all 256 heartbeat bytes, boot-ups; (3) waits with an instrumented condition. Signature = (workload, "
        "sequence of command classes / op kinds); exhaustive part counted per distinct sequence.")
RULE += (" " + 'Widened later: a device that answers resets with its boot-up at once (inline), node guarding switched on, boot-up bytes 0x00/0x80 in waits, slow application callbacks, several waiters, wait_for_bootup on a node that keeps sending ordinary heartbeats (logical-step oracle), waiters that re-park after their matching message.')
RULE += (" " + "Widened later: the slave's interface offers each of the four kinds of cyclic tasks in turn (modifiable, modifiable by copy, fixed frame, restartable).")
ASSUMPTIONS = ["a network does not receive its own frames (python-can semantics), so each view has its own model",
               "SLEEP (80) and STANDBY (96) are the library's documented extra commands",
               "'fails when none arrives' is judged with a 30 ms time-out (watchdog => inconclusive)"]
REQUIRED = {"view_states_compared": 5000, "nmt_frames_validated": 1000, "heartbeat_bytes": 256, "wait_cases": 10}

# own transcription (CiA 301 7.2.8 + the library's documented sleep/standby extension)
CMD_STATE = {1: 5, 2: 4, 80: 80, 96: 96, 128: 127, 129: 0, 130: 0}
STATE_NAME = {0: "INITIALISING", 4: "STOPPED", 5: "OPERATIONAL", 80: "SLEEP", 96: "STANDBY", 127: "PRE-OPERATIONAL"}
NAME_CMD = {"OPERATIONAL": 1, "STOPPED": 2, "SLEEP": 80, "STANDBY": 96, "PRE-OPERATIONAL": 128, "INITIALISING": 129,
            "RESET": 129, "RESET COMMUNICATION": 130}
UNDEFINED = [0, 3, 127, 255]
K, J = 5, 9


def plan(tier, seed):
    n = 8
    shards = [{"kind": "exhaustive", "maxlen": 3 if tier == "quick" else 4, "part": i, "parts": n} for i in range(n)]
    shards += [{"kind": "random", "histories": 40 if tier == "quick" else 2000, "length": 40, "cs": seed * 100 + i} for i in range(4)]
    shards += [{"kind": "waits", "rounds": 6 if tier == "quick" else 40, "cs": seed}]
    return shards


def od_factory():
    return gen.typed_od(rpdos=(), tpdos=(), heartbeat=True)


class Rig:
    built = 0

    def __init__(self, instrument_wait=False):
        import canopen
        self.bus = simbus.SimBus(mode="inline")
        self.mnet, self.mst = simbus.make_network(self.bus, "master")
        # the slave's interface: all four kinds of cyclic tasks in turn (modifiable in place, modifiable by copy, fixed
        # frame that must be restarted to change, restartable)
        Rig.built += 1
        self.snet, self.sst = simbus.make_network(self.bus, "slave", modifiable=[True, False, "copy", "restartable"][Rig.built % 4])
        self.onet, self.ost = simbus.make_network(self.bus, "observer")
        self.ext = self.bus.actor_station("ext")
        self.m_k = self.mnet.add_node(canopen.RemoteNode(K, od_factory()))
        self.m_j = self.mnet.add_node(canopen.RemoteNode(J, od_factory()))
        self.local = self.snet.create_node(canopen.LocalNode(K, od_factory()))
        self.obs = self.onet.add_node(canopen.RemoteNode(K, od_factory()))
        self.wire_violations = []
        self.nmt_frames = 0
        # a device on the bus that restarts at once: it answers every reset command for node K (or for all nodes) with its
        # boot-up message - inline, i.e. the boot-up is processed before the commanding master's send() has returned
        self.autoboot = False
        self.rebooter = self.bus.actor_station("rebooter", self)
        self.bus.taps.append(self._tap)
        # views: name -> (nmt object, model state code)
        self.views = {"master": self.m_k.nmt, "slave": self.local.nmt, "observer": self.obs.nmt, "broadcast": self.mnet.nmt,
                      "master_other": self.m_j.nmt}
        self.model = {v: 0 for v in self.views}

    def on_frame(self, frame, station):
        if self.autoboot and frame.can_id == 0 and len(frame.data) == 2 and frame.data[0] in (129, 130) and frame.data[1] in (K, 0):
            station.send(0x700 + K, b"\x00")

    def _tap(self, f):
        if f.can_id == 0 and f.src in ("master", "slave", "observer"):
            self.nmt_frames += 1
            if len(f.data) != 2 or f.ext or f.rtr:
                self.wire_violations.append(f"NMT frame {f.brief()} is not exactly [cs, node] in a standard data frame")
        if 0x700 < f.can_id <= 0x77F and f.src == "slave" and f.data != b"\x00" and len(f.data) != 1:
            self.wire_violations.append(f"heartbeat/boot-up frame {f.brief()} is not one byte")

    # ---- model updates
    def hear_command(self, view, cs, target):
        own = {"master": K, "slave": K, "observer": K, "master_other": J}.get(view)
        if view == "broadcast":
            return                      # network.nmt is not subscribed to anything
        if target in (own, 0) and cs in CMD_STATE:
            self.model[view] = CMD_STATE[cs]

    def command_on_bus(self, src_station, cs, target):
        """A frame [cs, target] sent by station src: every *other* network hears it."""
        for view, station in (("master", "master"), ("master_other", "master"), ("slave", "slave"), ("observer", "observer")):
            if station != src_station:
                self.hear_command(view, cs, target)
        if self.autoboot and cs in (129, 130) and target in (K, 0):
            self.hear_heartbeat("rebooter", K, 0)       # ... and then everybody hears the restarted device's boot-up

    def hear_heartbeat(self, src_station, node, byte):
        code = byte & 0x7F
        new = 127 if code == 0 else code
        for view, station, nid in (("master", "master", K), ("observer", "observer", K), ("master_other", "master", J)):
            if station != src_station and nid == node:
                self.model[view] = new

    def compare(self, ctx, case, step):
        from canopen.nmt import NmtError  # noqa: F401
        for view, nmt in self.views.items():
            ctx.count("view_states_compared")
            code = self.model[view]
            try:
                got = nmt.state
            except Exception as exc:  # noqa: BLE001
                ctx.violation(f"state-getter-raised:{type(exc).__name__}", f"{view}.state raised {exc!r}", case)
                continue
            if code in STATE_NAME:
                if got != STATE_NAME[code]:
                    ctx.violation(f"state-mismatch:{view}", f"after step {step} the {view} view reports {got!r}, the NMT machine says {STATE_NAME[code]!r}", case)
            elif got in STATE_NAME.values():
                ctx.violation(f"undefined-state-reported-as-defined:{view}", f"{view} reports {got!r} for undefined state code {code}", case)

    def flush_wire(self, ctx, case):
        for w in self.wire_violations:
            ctx.violation("nmt-wire", w, case)
        self.wire_violations.clear()
        for st in (self.mst, self.sst, self.ost):
            for frame, exc in st.rx_errors:
                ctx.violation(f"receive-path-raised:{type(exc).__name__}", f"{frame.brief()} -> {exc!r}", case)
            st.rx_errors.clear()

    def reset(self):
        self.ext.send(0, bytes([129, 0]))
        self.mnet.nmt.send_command(129)
        for v in self.views:
            self.model[v] = 0
        self.local.nmt.stop_heartbeat()


def cmdclass(cs):
    return str(cs) if cs in CMD_STATE else "undef"


def run_exhaustive(ctx, desc):
    rig = Rig()
    log = rigs.LogCapture()
    codes = sorted(CMD_STATE) + UNDEFINED
    symbols = [(cs, tgt) for cs in codes for tgt in ("own", "zero", "other")]
    tmap = {"own": K, "zero": 0, "other": 33}
    n = 0
    for length in range(1, desc["maxlen"] + 1):
        for seq in itertools.product(range(len(symbols)), repeat=length):
            n += 1
            if n % desc["parts"] != desc["part"]:
                continue
            rig.reset()
            case = {"workload": "exhaustive", "sequence": [symbols[i] for i in seq]}
            sig = tuple((cmdclass(symbols[i][0]), symbols[i][1]) for i in seq)
            ctx.case(("exh",) + sig, nontrivial=True)
            for step, i in enumerate(seq):
                cs, tgt = symbols[i]
                target = tmap[tgt]
                rig.ext.send(0, bytes([cs, target]))
                rig.command_on_bus("ext", cs, target)
                rig.compare(ctx, case, step)
            rig.flush_wire(ctx, case)
    ctx.count("nmt_frames_validated", rig.nmt_frames)
    report_log(ctx, log)
    ctx.sample({"workload": "exhaustive", "symbols": len(symbols), "maxlen": desc["maxlen"], "example": [symbols[3], symbols[20]]})


def report_log(ctx, log):
    for r in log.records:
        if r.levelname == "ERROR":
            ctx.violation("exception-swallowed-on-receive-path", f"canopen logged an error while dispatching: {r.getMessage()[:200]}", {"logger": r.name})
            break


def run_random(ctx, desc):
    from canopen.nmt import NmtError  # noqa: F401
    rng = random.Random(repr(("c11r", desc["cs"])))
    hb_bytes = list(range(256))
    rng.shuffle(hb_bytes)
    log = rigs.LogCapture()
    for h in range(desc["histories"]):
        rig = Rig()
        for st in (rig.mst, rig.sst, rig.ost):
            st.via = "notify"                   # exceptions on the receive path must be seen, not swallowed
        ops = []
        case = {"workload": "random", "history": f"{desc['cs']}-{h}", "ops": ops}
        hb_running = h % 2 == 0
        if hb_running:
            rig.local.sdo[0x1017].raw = 100          # the slave produces heartbeats; one period elapses on every "tick"
            ops.append(("slave-heartbeat-time", 100))
        rig.autoboot = rng.random() < 0.4
        if rig.autoboot:
            ops.append(("device-restarts-at-once",))
        if rng.random() < 0.35:
            # node guarding is switched on for node K: heartbeats and boot-ups are decoded as before, toggle bit or not
            ops.append(("node-guarding-on",))
            rig.m_k.nmt.start_node_guarding(0.5)
        for step in range(desc["length"]):
            r = rng.random()
            mark = len(rig.bus.log)
            try:
                if r < 0.1 and hb_running:
                    ops.append(("tick",))
                    rig.bus.tick()
                    sent = [f for f in list(rig.bus.log)[mark:] if f.src == "slave" and f.can_id == 0x700 + K]
                    want = bytes([rig.model["slave"]])
                    if len(sent) != 1 or sent[0].data != want:
                        ctx.violation("heartbeat-does-not-carry-the-slave-state", f"one heartbeat period sent {[f.brief() for f in sent]}, the slave is in state code {rig.model['slave']}", dict(case, ops=ops[-10:]))
                    for f in sent:
                        rig.hear_heartbeat("slave", K, f.data[0] if f.data else 0)
                    ctx.case(("heartbeat-tick", rig.model["slave"]))
                elif r < 0.2:
                    cs = rng.choice(sorted(CMD_STATE) + UNDEFINED)
                    who = rng.choice(["master", "master_other", "broadcast", "observer"])
                    ops.append(("api-command", who, cs))
                    rig.views[who].send_command(cs)
                    target = {"master": K, "master_other": J, "broadcast": 0, "observer": K}[who]
                    station = "observer" if who == "observer" else "master"
                    if cs in CMD_STATE:
                        rig.model[who] = CMD_STATE[cs]
                    rig.command_on_bus(station, cs, target)
                    sent = [f for f in list(rig.bus.log)[mark:] if f.can_id == 0]
                    if len(sent) != 1 or sent[0].data != bytes([cs, target]):
                        ctx.violation("nmt-command-frame", f"{who}.send_command({cs}) put {[f.brief() for f in sent]} on id 0, expected [{cs:02x}{target:02x}]", dict(case, ops=ops[-10:]))
                    ctx.case(("api-command", who, cmdclass(cs)))
                elif r < 0.35:
                    who = rng.choice(["master", "broadcast", "slave"])
                    valid = rng.random() < 0.7
                    name = rng.choice(sorted(NAME_CMD)) if valid else rng.choice(["", "operational", "BOOT", "PRE_OPERATIONAL", "UNKNOWN", "RESET NODE", " STOPPED"])
                    ops.append(("state-by-name", who, name))
                    raised = None
                    try:
                        rig.views[who].state = name
                    except ValueError as exc:
                        raised = exc
                    sent = [f for f in list(rig.bus.log)[mark:] if f.src in ("master", "slave")]
                    if valid:
                        cs = NAME_CMD[name]
                        if raised is not None:
                            ctx.violation("valid-state-name-rejected", f"{who}.state = {name!r} raised {raised!r}", dict(case, ops=ops[-10:]))
                        elif who == "slave":
                            rig.model["slave"] = CMD_STATE[cs]
                            if CMD_STATE[cs] == 0:
                                rig.hear_heartbeat("slave", K, 0)       # boot-up message
                                if [f.can_id for f in sent if f.can_id == 0x700 + K] != [0x700 + K] or [f for f in sent if f.can_id == 0x700 + K][0].data != b"\x00":
                                    ctx.violation("boot-up-frame", f"slave entering INITIALISING sent {[f.brief() for f in sent]}", dict(case, ops=ops[-10:]))
                        else:
                            target = K if who == "master" else 0
                            rig.model[who] = CMD_STATE[cs]
                            rig.command_on_bus("master", cs, target)
                            nm = [f for f in sent if f.can_id == 0]
                            if len(nm) != 1 or nm[0].data != bytes([cs, target]):
                                ctx.violation("nmt-command-frame", f"{who}.state = {name!r} put {[f.brief() for f in nm]} on id 0", dict(case, ops=ops[-10:]))
                    else:
                        if raised is None:
                            ctx.violation("invalid-state-name-accepted", f"{who}.state = {name!r} did not raise ValueError", dict(case, ops=ops[-10:]))
                        if sent:
                            ctx.violation("invalid-state-name-sent-frame", f"{who}.state = {name!r} sent {[f.brief() for f in sent]}", dict(case, ops=ops[-10:]))
                    ctx.case(("state-by-name", who, "valid" if valid else "invalid"))
                elif r < 0.6:
                    byte = hb_bytes.pop() if hb_bytes else rng.randrange(256)
                    node = rng.choice([K, K, K, J, 44])
                    ops.append(("heartbeat", node, byte))
                    rig.ext.send(0x700 + node, bytes([byte]))
                    rig.hear_heartbeat("ext", node, byte)
                    ctx.count("heartbeat_bytes")
                    code = byte & 0x7F
                    ctx.case(("heartbeat", "toggle" if byte & 0x80 else "plain", "defined" if code in STATE_NAME else "undefined"))
                else:
                    cs = rng.choice(sorted(CMD_STATE) + UNDEFINED)
                    target = rng.choice([K, 0, J, 77])
                    ops.append(("raw-command", cs, target))
                    rig.ext.send(0, bytes([cs, target]))
                    rig.command_on_bus("ext", cs, target)
                    ctx.case(("raw-command", cmdclass(cs), "own" if target == K else "zero" if target == 0 else "other"))
            except Exception as exc:  # noqa: BLE001
                ctx.violation(f"nmt-operation-raised:{type(exc).__name__}", f"{ops[-1]} raised {type(exc).__name__}: {exc}", dict(case, ops=ops[-10:]))
                # the model was possibly not updated consistently: resynchronise from scratch
                break
            rig.compare(ctx, dict(case, ops=ops[-10:]), step)
            rig.flush_wire(ctx, dict(case, ops=ops[-10:]))
        ctx.count("nmt_frames_validated", rig.nmt_frames)
        if len(ctx.samples) < 2:
            ctx.sample({"workload": "random", "ops": ops[:12]})
        rig.bus.close()
    # a remote node whose id comes from the object dictionary addresses its commands to that id
    import canopen
    for arg in (0, None):
        rig = Rig()
        od = od_factory()
        od.node_id = 21
        try:
            node = canopen.RemoteNode(arg, od)
            rig.mnet.add_node(node)
            mark = len(rig.bus.log)
            node.nmt.state = "OPERATIONAL"
            sent = [f for f in list(rig.bus.log)[mark:] if f.can_id == 0]
            ctx.case(("node-id-from-od", repr(arg)))
            if node.id != 21 or len(sent) != 1 or sent[0].data != bytes([1, 21]):
                ctx.violation("nmt-command-frame:id-from-od", f"RemoteNode({arg!r}, od with node id 21): id {node.id}, NMT frames {[f.brief() for f in sent]}", {"workload": "id-from-od", "arg": repr(arg)})
        except Exception as exc:  # noqa: BLE001
            ctx.violation(f"nmt-operation-raised:{type(exc).__name__}:id-from-od", f"RemoteNode({arg!r}, od with node id 21) / state assignment raised {exc!r}", {"workload": "id-from-od", "arg": repr(arg)})
        rig.bus.close()
    # make sure every heartbeat byte was exercised at least once per shard (the second time with node guarding running)
    rig = Rig()
    for b in list(range(256)) + ["guard"] + [rng.randrange(256) for _ in range(64)] + [5, 5, 0x85, 0x85, 4]:
        if b == "guard":
            rig.m_k.nmt.start_node_guarding(1.0)
            continue
        rig.ext.send(0x700 + K, bytes([b]))
        rig.hear_heartbeat("ext", K, b)
        ctx.count("heartbeat_bytes")
        ctx.case(("heartbeat-sweep", b & 0x7F in STATE_NAME, bool(b & 0x80)))
        rig.compare(ctx, {"workload": "heartbeat-sweep", "byte": b}, b)
        # a command after an undefined state must still work
        rig.ext.send(0, bytes([1, K]))
        rig.command_on_bus("ext", 1, K)
        rig.compare(ctx, {"workload": "heartbeat-sweep", "byte": b, "then": "start"}, b)
        rig.flush_wire(ctx, {"workload": "heartbeat-sweep", "byte": b})
    report_log(ctx, log)


def run_waits(ctx, desc):
    from canopen.nmt import NmtError
    log = rigs.LogCapture()
    rng = random.Random(repr(("c11w", desc["cs"])))
    for rnd in range(desc["rounds"]):
        rig = Rig()
        nmt = rig.m_k.nmt
        cond = waits.SignallingCondition()
        nmt.state_update = cond
        # ---- wait_for_heartbeat returns on the matching message
        byte = [5, 0, 0x85, 0x80, 4, 127][rnd % 6]
        if rnd % 2:
            # an application callback that takes its time (the state the waiter is handed must still be the message's)
            nmt.add_heartbeat_callback(lambda state: time.sleep(0.03))
        status, val = waits.run_waiter(lambda: nmt.wait_for_heartbeat(40), cond, lambda: rig.ext.send(0x700 + K, bytes([byte])), must_return=True)
        ctx.count("wait_cases")
        ctx.case(("wait-heartbeat", byte))
        code = byte & 0x7F
        want = STATE_NAME[127 if code == 0 else code]
        case = {"workload": "waits", "kind": "heartbeat", "byte": byte}
        if status in ("hung", "never-waited"):
            ctx.inconc(f"wait_for_heartbeat: {status}", case)
        elif status == "not-woken":
            ctx.violation("waiter-not-woken", "the heartbeat was delivered but the caller waiting in wait_for_heartbeat() was not woken", case)
        elif status == "re-parked":
            ctx.violation("wait-for-heartbeat-ignored-the-message", f"heartbeat byte {byte:#04x} was delivered, the waiter looked at it and waited again "
                          f"(it returned {val!r} only later)", case)
        elif status != "returned" or val != want:
            ctx.violation("wait-for-heartbeat", f"wait_for_heartbeat ended {status} with {val!r}, expected return of {want!r}", case)
        # ---- a heartbeat of another node does not wake it; none arriving -> NmtError
        t0 = time.time()
        status, val = waits.run_waiter(lambda: nmt.wait_for_heartbeat(0.03), cond, lambda: rig.ext.send(0x700 + J, b"\x05"))
        ctx.count("wait_cases")
        ctx.case(("wait-heartbeat-timeout",))
        if status in ("hung", "never-waited"):
            ctx.inconc(f"wait_for_heartbeat timeout: {status}", case)
        elif status != "raised" or not isinstance(val, NmtError):
            ctx.violation("wait-for-heartbeat-no-error", f"no heartbeat for node {K} arrived, wait_for_heartbeat ended {status} with {val!r}", case)
        # ---- a heartbeat / boot-up received while nobody was waiting must not satisfy a later wait
        for stale in (b"\x05", b"\x00"):
            rig.ext.send(0x700 + K, stale)
            status, val = waits.run_waiter(lambda: nmt.wait_for_heartbeat(0.03), cond, None)
            ctx.count("wait_cases")
            ctx.case(("wait-heartbeat-after-stale", stale[0]))
            if status in ("hung", "never-waited"):
                ctx.inconc(f"wait_for_heartbeat after stale: {status}", case)
            elif status != "raised" or not isinstance(val, NmtError):
                ctx.violation("wait-for-heartbeat-satisfied-by-earlier-message", f"heartbeat {stale.hex()} arrived before the wait started and nothing after; "
                              f"wait_for_heartbeat ended {status} with {val!r} instead of NmtError", case)
            rig.ext.send(0x700 + K, b"\x00")
            status, val = waits.run_waiter(lambda: nmt.wait_for_bootup(0.03), cond, None)
            ctx.count("wait_cases")
            ctx.case(("wait-bootup-after-stale", stale[0]))
            if status in ("hung", "never-waited"):
                ctx.inconc(f"wait_for_bootup after stale: {status}", case)
            elif status != "raised" or not isinstance(val, NmtError):
                ctx.violation("wait-for-bootup-satisfied-by-earlier-message", f"boot-up arrived before the wait started and nothing after; "
                              f"wait_for_bootup ended {status} with {val!r} instead of NmtError", case)
        # ---- wait_for_bootup: a plain heartbeat first, then the boot-up
        done = {}

        boot = b"\x80" if rnd % 2 else b"\x00"             # the toggle bit is ignored: both bytes announce a boot-up
        rig.ext.send(0x700 + K, b"\x05")              # (and whatever was received before the wait does not matter)

        def waiter():
            nmt.wait_for_bootup(40)
            return "ok"

        def deliver():
            n = cond.waits
            rig.ext.send(0x700 + K, b"\x05")
            cond.reentered(n)       # the waiter has seen the plain heartbeat and waits again (or has returned)
            rig.ext.send(0x700 + K, boot)
            done["ok"] = True
        status, val = waits.run_waiter(waiter, cond, deliver)
        ctx.count("wait_cases")
        ctx.case(("wait-bootup", boot[0]))
        case = {"workload": "waits", "kind": "bootup", "boot_up_byte": boot[0]}
        if status in ("hung", "never-waited"):
            ctx.inconc(f"wait_for_bootup: {status}", case)
        elif status != "returned":
            ctx.violation("wait-for-bootup", f"boot-up delivered after a plain heartbeat, wait_for_bootup ended {status} with {val!r}", case)
        status, val = waits.run_waiter(lambda: nmt.wait_for_bootup(0.03), cond, lambda: rig.ext.send(0x700 + K, b"\x7f"))
        ctx.count("wait_cases")
        ctx.case(("wait-bootup-timeout",))
        if status in ("hung", "never-waited"):
            ctx.inconc(f"wait_for_bootup timeout: {status}", case)
        elif status != "raised" or not isinstance(val, NmtError):
            ctx.violation("wait-for-bootup-no-error", f"no boot-up arrived, wait_for_bootup ended {status} with {val!r}", case)
        # ---- several callers wait for the same node at once: one message serves them all
        bb = [b"\x00", b"\x80"][rnd % 2]
        res = waits.run_waiters([lambda: nmt.wait_for_heartbeat(40), lambda: (nmt.wait_for_bootup(40), "ok")[1], lambda: nmt.wait_for_heartbeat(40)],
                                cond, lambda: rig.ext.send(0x700 + K, bb))
        ctx.count("wait_cases")
        ctx.case(("wait-several-waiters", bb[0]))
        for i, (status, val) in enumerate(res):
            wcase = {"workload": "waits", "kind": "several-waiters", "waiter": i, "byte": bb[0]}
            if status in ("hung", "never-waited"):
                ctx.inconc(f"several NMT waiters: {status}", wcase)
            elif status == "not-woken":
                ctx.violation("waiter-not-woken:several-waiters", f"waiter {i} of 3 was not woken by the boot-up message that arrived while it waited", wcase)
            elif status != "returned" or val != ("ok" if i == 1 else "PRE-OPERATIONAL"):
                ctx.violation("wait-several-waiters", f"waiter {i} of 3 ended {status} with {val!r} after a boot-up message", wcase)
        # ---- ordinary heartbeats keep arriving but never a boot-up: the call still fails with NmtError once its time
        #      is over.  Judged on logical steps: after the deadline has certainly passed, every further heartbeat is
        #      delivered only when the waiter is parked again; a conformant wait parks at most once more.
        if rnd < 2:
            import threading
            T = 0.15
            box = {}

            def target():
                try:
                    nmt.wait_for_bootup(T)
                    box["r"] = "returned"
                except NmtError:
                    box["r"] = "NmtError"
                except Exception as exc:  # noqa: BLE001
                    box["r"] = repr(exc)
            th = threading.Thread(target=target, daemon=True)
            n0 = cond.waits
            th.start()
            case = {"workload": "waits", "kind": "bootup-busy-node", "timeout": T}
            ctx.count("wait_cases")
            ctx.case(("wait-bootup-busy-node",))
            end = time.time() + 10
            while cond.waits == n0 and th.is_alive() and time.time() < end:
                time.sleep(0.0005)
            seen = time.time()                       # the call started before this moment: its deadline is before seen + T
            while time.time() <= seen + T + 0.05 and th.is_alive():
                n = cond.waits
                rig.ext.send(0x700 + K, b"\x05")
                cond.reentered(n, 0.2)
                time.sleep(0.01)
            n_after = cond.waits
            for _ in range(8):
                if not th.is_alive():
                    break
                n = cond.waits
                rig.ext.send(0x700 + K, b"\x05")
                if not cond.reentered(n, 1.0):
                    th.join(1.0)
            # (judged while the heartbeats are still coming: a wait that restarts with every message ends as soon as they stop)
            parked_again = cond.waits - n_after
            still_waiting = th.is_alive() and cond.waiting.is_set()
            if not still_waiting:
                th.join(1.0)
            if still_waiting and parked_again >= 3:
                ctx.violation("wait-for-bootup-outlives-its-time-out", f"wait_for_bootup({T}) parked {parked_again} more times after its time was over "
                              "while ordinary heartbeats kept arriving, and has not raised NmtError", case)
                for _ in range(3):                   # let the thread go: a boot-up ends it
                    rig.ext.send(0x700 + K, b"\x00")
                    th.join(0.5)
            elif th.is_alive():
                ctx.inconc("wait_for_bootup busy node: still waiting but not re-parking", case)
            elif box.get("r") != "NmtError":
                ctx.violation("wait-for-bootup-no-error", f"no boot-up arrived (only ordinary heartbeats), wait_for_bootup ended with {box.get('r')!r}", case)
        rig.bus.close()
    ctx.count("view_states_compared", 0)
    report_log(ctx, log)
    ctx.sample({"workload": "waits", "rounds": desc["rounds"]})


def REQUIRED_FOR(tier):  # noqa: N802
    return REQUIRED


def run(ctx, desc):
    if desc["kind"] == "exhaustive":
        run_exhaustive(ctx, desc)
    elif desc["kind"] == "random":
        run_random(ctx, desc)
    else:
        run_waits(ctx, desc)


def replay(ctx, case):
    ctx.case(("replay",))
    if case.get("workload") == "exhaustive":
        rig = Rig()
        rig.reset()
        tmap = {"own": K, "zero": 0, "other": 33}
        for step, (cs, tgt) in enumerate(case["sequence"]):
            rig.ext.send(0, bytes([cs, tmap[tgt]]))
            rig.command_on_bus("ext", cs, tmap[tgt])
            rig.compare(ctx, case, step)
    else:
        ctx.inconc("history witness: re-run the shard with the same seed", case)
