"""C02 - SDO server serves and stores object values exactly, in conformant CiA 301 frames.

Real SdoServer (LocalNode) <-> strict reference client (ref.sdo_client) which
drives Network.notify directly.  Oracles: bytes obtained by the reference
client vs. ref.codec encoding of the value the precedence rule selects;
LocalNode.data_store and write-callback arguments after downloads; the
reference client's validation of every response (server-side wire monitor);
never-raises / exactly-one-response per request.
"""
from __future__ import annotations

import random

from canmon import gen, oracles, rigs
from canmon.ref import codec as R

ID = "C02"
LEVEL = "exploration"
RULE = ("three workloads over generated object dictionaries (variables, records, arrays; all data types): (a) value matrix - "
        "every readable entry x every subset of the four value sources (read callback > stored data > ParameterValue > "
        "DefaultValue), string/domain lengths 0..64 exhaustive; (b) downloads (expedited with and without size, segmented "
        "with/without size, short middle segments) followed by store / callback / upload comparison; (c) request histories "
        "from a freshly created node mixing valid transfers with arbitrary 1..8 byte frames. Signature = (workload, type, "
        "source set or download mode, length class); non-trivial = value length != 4 or more than one source. Widened later: expedited "
        "downloads without size indication (e=1, s=0) of four bytes to string and domain entries.")
ASSUMPTIONS = ["0-byte CAN frames are outside the property (1..8)", "which abort code answers garbage is C06's business",
               "malformed (shorter than 8 bytes) client abort frames are not judged for the no-response rule",
               "expedited downloads without size indication are sent to 4-byte entries only"]
REQUIRED = {"application_refusals": 10, "uploads_compared": 500, "downloads_compared": 200, "history_frames": 1000, "responses_validated": 3000}
EXHAUSTIVE = ["value lengths 0..64 for VISIBLE_STRING/OCTET_STRING/DOMAIN from the stored-data and default sources"]


def plan(tier, seed):
    n = 16
    return [{"part": i, "parts": n, "ods": 3 if tier == "quick" else 80, "histories": 60 if tier == "quick" else 2500,
             "hist_len": 12 if tier == "quick" else 40, "cs": seed * 100 + i} for i in range(n)]


def lenclass(n):
    return "0" if n == 0 else "1-3" if n < 4 else "4" if n == 4 else "5-7" if n <= 7 else "8-14" if n <= 14 else "15+"


class Harness:
    def __init__(self, ctx, model, node_id=5):
        self.ctx = ctx
        self.model = model
        self.od = gen.build_od(model, node_id)
        self.rig = rigs.ServerRig(self.od, node_id)
        self.node = self.rig.node
        self.cb_values = {}
        self.write_log = []
        # three read callbacks serving disjoint entries (an application made of several modules), two write callbacks
        self.node.add_read_callback(self._read_cb_even)
        self.node.add_read_callback(self._read_cb_odd)
        self.node.add_read_callback(self._read_cb_none)
        self.node.add_write_callback(self._write_cb)
        self.node.add_write_callback(self._write_cb_refusing)
        self.refuse_code = None        # when set, the application refuses the next written value with this abort code
        self.reported = 0
        self.model_store = {}          # (index, sub) -> bytes accepted by a completed download (reference model of data_store)

    def check_store(self, case):
        """Every value accepted by a completed download must still be exactly what data_store holds."""
        for (index, sub), want in self.model_store.items():
            got = self.node.data_store.get(index, {}).get(sub)
            self.ctx.count("store_model_compared")
            if got is None or bytes(got) != want:
                self.ctx.violation("stored-value-changed-later", f"data_store[{index:#x}][{sub}] = {got!r}, the last accepted download was {want!r}",
                                   case, self.rig.wire(16))
                self.model_store[(index, sub)] = bytes(got) if got is not None else b""

    def _read_cb_even(self, index, subindex, od, **kw):
        return self.cb_values.get((index, subindex)) if (index + subindex) % 2 == 0 else None

    def _read_cb_odd(self, index, subindex, od, **kw):
        return self.cb_values.get((index, subindex)) if (index + subindex) % 2 == 1 else None

    def _read_cb_none(self, index, subindex, od, **kw):
        return None

    def _write_cb_refusing(self, index, subindex, od, data, **kw):
        if self.refuse_code is not None:
            from canopen.sdo.exceptions import SdoAbortedError
            code, self.refuse_code = self.refuse_code, None
            raise SdoAbortedError(code)

    def _write_cb(self, index, subindex, od, data, **kw):
        self.write_log.append((index, subindex, od, bytes(data)))

    def odvar(self, vm):
        o = self.od[vm.index]
        return o if self.model.objects[vm.index].kind == "var" else o[vm.sub]

    def flush_findings(self, case):
        """Turn reference-client findings / receive-path exceptions into violations."""
        c = self.rig.client
        for mech, msg in c.violations[self.reported:]:
            self.ctx.violation("wire:" + mech, msg, case, self.rig.wire(16))
        self.reported = len(c.violations)
        for frame, exc in self.rig.rx_errors:
            self.ctx.violation(f"server-raised-into-receive-path:{type(exc).__name__}",
                               f"request {frame.hex()} made notify() raise {exc!r}", case, self.rig.wire(16))
        self.rig.rx_errors.clear()


def expected_bytes(dt, v):
    if isinstance(v, (bytes, bytearray)):
        return bytes(v)
    return R.encode(dt, v)


# ----------------------------------------------------------------------------- (a) value matrix
def value_matrix(ctx, h, rng, full_lengths):
    client = h.rig.client
    for o, vm in h.model.variables():
        if vm.access == "wo":
            continue
        odv = h.odvar(vm)
        dt = vm.dt
        blobby = dt in R.BLOBS or dt in R.STRINGS
        combos = [frozenset(s) for s in (["default"], ["value"], ["store"], ["callback"], ["default", "value"],
                                         ["default", "store"], ["value", "store"], ["default", "value", "store", "callback"],
                                         ["store", "callback"], ["default", "callback"])]
        if getattr(o, "array_style", None) == "templated" and vm.sub > 1:
            # an element generated from the array's first one has no dictionary object of its own to configure: it is served
            # from the store, from callbacks, or (nothing else given) with the first element's default
            combos = [frozenset(["store"]), frozenset(["callback"]), frozenset(["store", "callback"])]
        lengths = [None]
        if blobby and full_lengths:
            lengths = list(range(0, 65))
            combos = [frozenset(["store"]), frozenset(["default"]), frozenset(["callback"])]
        if getattr(o, "array_style", None) == "templated" and vm.sub > 1:
            combos = [cset for cset in combos if not cset & {"default", "value"}]
        for srcs in combos:
            for ln in lengths:
                vals = {}
                for s in ("default", "value", "store", "callback"):
                    if s in srcs:
                        v = gen.random_value(rng, dt)
                        if ln is not None:
                            if dt == R.VISIBLE_STRING:
                                v = "".join(chr(rng.randint(33, 126)) for _ in range(ln))
                            elif dt == R.UNICODE_STRING:
                                v = "".join(chr(rng.randint(0x21, 0x24F)) for _ in range(ln // 2))
                            else:
                                v = bytes(rng.getrandbits(8) for _ in range(ln))
                        vals[s] = v
                if not (getattr(o, "array_style", None) == "templated" and vm.sub > 1):
                    odv.default = vals.get("default")
                    odv.value = vals.get("value")
                h.node.data_store.get(vm.index, {}).pop(vm.sub, None)
                if "store" in vals:
                    h.node.data_store.setdefault(vm.index, {})[vm.sub] = expected_bytes(dt, vals["store"])
                h.cb_values.clear()
                app_buffer = None
                if "callback" in vals:
                    h.cb_values[(vm.index, vm.sub)] = vals["callback"]
                    if isinstance(vals["callback"], bytes) and rng.random() < 0.5:
                        # the application serves the entry from a buffer of its own that it keeps (a bytearray)
                        app_buffer = h.cb_values[(vm.index, vm.sub)] = bytearray(vals["callback"])
                winner = next(s for s in ("callback", "store", "value", "default") if s in vals)
                want = expected_bytes(dt, vals[winner])
                case = {"workload": "value-matrix", "index": vm.index, "sub": vm.sub, "type": R.NAMES[dt], "kind": o.kind,
                        "sources": {k: v for k, v in vals.items()}, "winner": winner}
                ctx.case(("matrix", R.NAMES[dt], tuple(sorted(srcs)), lenclass(len(want))), nontrivial=len(want) != 4 or len(srcs) > 1)
                res = client.upload(vm.index, vm.sub)
                ctx.count("uploads_compared")
                if res[0] != "ok":
                    ctx.violation(f"upload-failed:{res[0]}:{winner}", f"upload of a readable entry with value from {winner} ended in {res}", case, h.rig.wire(12))
                elif res[1] != want:
                    ctx.violation(f"upload-wrong-bytes:{winner}:{'empty' if not want else 'nonempty'}",
                                  f"reference client obtained {res[1].hex()} expected {want.hex()} (source {winner})", case, h.rig.wire(12))
                if app_buffer is not None:
                    # serving it once must not use it up: the buffer is the application's, and a second upload sees it again
                    res2 = client.upload(vm.index, vm.sub)
                    ctx.count("uploads_compared")
                    if bytes(app_buffer) != want:
                        ctx.violation("upload-consumed-the-callback-buffer", f"after one upload the application's bytearray holds {bytes(app_buffer).hex()} instead of {want.hex()}", case, h.rig.wire(12))
                    elif res2 != ("ok", want):
                        ctx.violation("upload-wrong-bytes:callback:second-upload", f"second upload of the same callback value ended in {res2!r}, expected {want.hex()}", case, h.rig.wire(12))
                h.flush_findings(case)
                if len(ctx.samples) < 3 and len(want) in (0, 5):
                    ctx.sample({"case": case, "wire": h.rig.wire(6)})
        if not (getattr(o, "array_style", None) == "templated" and vm.sub > 1):
            odv.default, odv.value = vm.default, vm.value
        h.cb_values.clear()
    # no source at all is C06's business


# ----------------------------------------------------------------------------- (b) downloads
def download_payload(rng, dt, n=None):
    if dt in R.NUMERIC or dt == R.BOOLEAN:
        w = R.width(dt) // 8
        return bytes(rng.getrandbits(8) for _ in range(w)) if dt != R.BOOLEAN else bytes([rng.randint(0, 1)])
    if n is None:
        n = rng.choice([0, 1, 2, 3, 4, 5, 6, 7, 8, 13, 14, 15, rng.randint(0, 64)])
    return bytes(rng.getrandbits(8) for _ in range(n))


def one_download(ctx, h, rng, vm, data, mode, size_ind, seg_sizes, workload="download"):
    client = h.rig.client
    case = {"workload": workload, "index": vm.index, "sub": vm.sub, "type": R.NAMES[vm.dt], "data": data, "mode": mode,
            "size_indicated": size_ind, "seg_sizes": seg_sizes}
    ctx.case((workload, R.NAMES[vm.dt], mode, size_ind, bool(seg_sizes), lenclass(len(data))), nontrivial=len(data) != 4)
    nlog = len(h.write_log)
    res = client.download(vm.index, vm.sub, data, mode=mode, size_indicated=size_ind, seg_sizes=seg_sizes)
    ctx.count("downloads_compared")
    if res[0] != "ok":
        ctx.violation(f"download-failed:{res[0]}:{mode}", f"download to a writable entry ended in {res}", case, h.rig.wire(12))
        h.flush_findings(case)
        return
    stored = h.node.data_store.get(vm.index, {}).get(vm.sub)
    if stored != data:
        ctx.violation(f"download-store-mismatch:{mode}", f"data_store holds {stored!r} after downloading {data!r}", case, h.rig.wire(12))
    h.model_store[(vm.index, vm.sub)] = bytes(data)
    new = h.write_log[nlog:]
    if len(new) != 1 or new[0][0] != vm.index or new[0][1] != vm.sub or new[0][3] != data:
        ctx.violation("write-callback-mismatch", f"write callbacks saw {[(a, b, d) for a, b, _, d in new]} for one download of {data!r}", case)
    if vm.access != "wo":
        res = client.upload(vm.index, vm.sub)
        ctx.count("uploads_compared")
        if res[0] != "ok" or res[1] != data:
            ctx.violation("upload-after-download-mismatch:" + ("empty" if not data else "nonempty"),
                          f"upload after download of {data.hex()} gave {res}", case, h.rig.wire(12))
    h.flush_findings(case)


def refused_by_application(ctx, h, rng, vm, mode):
    """A write callback refuses a value (range or state check of the application): abort on the wire, nothing stored."""
    client = h.rig.client
    before = h.node.data_store.get(vm.index, {}).get(vm.sub)
    data = download_payload(rng, vm.dt)
    if mode == "expedited" and not 1 <= len(data) <= 4:
        mode = "segmented"
    code = rng.choice([0x06090030, 0x08000022, 0x06090031, 0x08000020])
    case = {"workload": "refused-by-application", "index": vm.index, "sub": vm.sub, "type": R.NAMES[vm.dt], "data": data, "mode": mode,
            "code": code}
    ctx.case(("refused-by-application", R.NAMES[vm.dt], mode, lenclass(len(data))), nontrivial=True)
    h.refuse_code = code
    res = client.download(vm.index, vm.sub, data, mode=mode, size_indicated=True)
    pending, h.refuse_code = h.refuse_code, None
    ctx.count("application_refusals")
    if pending is not None:
        ctx.violation("write-callback-not-called", f"a download of {data!r} ended in {res} without the write callbacks being asked", case, h.rig.wire(12))
    elif res[0] != "abort" or res[1] != code:
        ctx.violation("application-refusal-not-reported", f"the application refused with {code:#010x} but the client saw {res}", case, h.rig.wire(12))
    after = h.node.data_store.get(vm.index, {}).get(vm.sub)
    if after != before:
        ctx.violation("refused-download-stored", f"data_store went from {before!r} to {after!r} although the application refused the download", case, h.rig.wire(12))
    if vm.access != "wo" and before is not None and (vm.index, vm.sub) not in h.cb_values:
        res = client.upload(vm.index, vm.sub)
        ctx.count("uploads_compared")
        if res[0] != "ok" or res[1] != bytes(before):
            ctx.violation("upload-after-refused-download", f"upload after a refused download gave {res}, the last accepted value is {bytes(before)!r}", case, h.rig.wire(12))
    h.flush_findings(case)


def downloads(ctx, h, rng):
    for o, vm in h.model.variables():
        if "w" not in vm.access:
            continue
        for _ in range(4):
            data = download_payload(rng, vm.dt)
            modes = ["segmented"]
            if 1 <= len(data) <= 4:
                modes.append("expedited")
            if len(data) == 4:
                # e=1, s=0: all four data bytes belong to the object, whatever its type (strings and domains included)
                modes.append("expedited_nosize")
                if vm.dt not in R.NUMERIC:
                    modes.append("expedited_nosize")
            mode = rng.choice(modes)
            size_ind = rng.random() < 0.6
            seg_sizes = None
            if mode == "segmented" and rng.random() < 0.4 and len(data) > 1:
                seg_sizes = [rng.randint(1, 7) for _ in range(len(data))]
            one_download(ctx, h, rng, vm, data, mode, size_ind, seg_sizes)
            if rng.random() < 0.35:
                refused_by_application(ctx, h, rng, vm, mode if mode != "expedited_nosize" else "expedited")


# ----------------------------------------------------------------------------- (c) histories from a fresh node
def random_frame(rng):
    n = 8 if rng.random() < 0.7 else rng.randint(1, 8)
    b = bytearray(rng.getrandbits(8) for _ in range(n))
    r = rng.random()
    if r < 0.8:
        ccs = rng.choice([0, 1, 2, 3, 5, 6, 7, 4])
        b[0] = (ccs << 5) | (rng.getrandbits(5) if rng.random() < 0.5 else rng.choice([0, 0x10, 0x01, 0x02, 0x03, 0x11]))
    if r < 0.4 and n >= 4:
        b[1:4] = bytes([0x00, 0x20, 0x00])
    return bytes(b)


def history(ctx, model, rng, length, hid):
    h = Harness(ctx, model)           # a freshly created node for every history
    client = h.rig.client
    vars_ = [vm for _, vm in h.model.variables()]
    ops = []
    for step in range(length):
        r = rng.random()
        if r < 0.55:
            frame = random_frame(rng)
            ops.append(("raw", frame.hex()))
            case = {"workload": "history", "history": hid, "ops": ops[-14:]}
            is_abort = frame[0] >> 5 == 4
            if is_abort and len(frame) < 8:
                client.transport(frame)     # not judged for the no-response rule; must still not raise
            else:
                client.raw(frame)
            ctx.count("history_frames")
            ctx.case(("history-frame", frame[0] >> 5, len(frame), "first" if step == 0 else "later"))
            h.flush_findings(case)
            # an arbitrary frame may legitimately *start* a download that overwrites a value (expedited) - then the
            # model follows; anything else must leave every stored value alone
            ccs_ = frame[0] >> 5
            may_commit = (ccs_ == 1 and frame[0] & 0x02) or (ccs_ == 0 and frame[0] & 0x01)
            if may_commit:
                # an expedited initiate or a *last* download segment may legitimately complete a transfer that the
                # history itself started: the model follows the store
                for key in list(h.model_store):
                    cur = h.node.data_store.get(key[0], {}).get(key[1])
                    if cur is not None:
                        h.model_store[key] = bytes(cur)
            h.check_store(case)
        elif r < 0.8:
            vm = rng.choice(vars_)
            ops.append(("upload", vm.index, vm.sub))
            case = {"workload": "history", "history": hid, "ops": ops[-14:]}
            res = client.upload(vm.index, vm.sub)
            if vm.access != "wo":
                src = vm.value if vm.value is not None else vm.default
                stored = h.node.data_store.get(vm.index, {}).get(vm.sub)
                want = stored if stored is not None else (expected_bytes(vm.dt, src) if src is not None else None)
                if want is not None:
                    ctx.count("uploads_compared")
                    if res[0] != "ok" or res[1] != want:
                        ctx.violation("history-upload-mismatch:" + ("empty" if not want else "nonempty"),
                                      f"upload inside a history gave {res}, expected {want.hex()}", case, h.rig.wire(16))
            ctx.case(("history-upload", R.NAMES[vm.dt], "first" if step == 0 else "later"))
            h.flush_findings(case)
            h.check_store(case)
        else:
            ws = [vm for vm in vars_ if "w" in vm.access]
            if not ws:
                continue
            vm = rng.choice(ws)
            data = download_payload(rng, vm.dt)
            ops.append(("download", vm.index, vm.sub, data.hex()))
            one_download(ctx, h, rng, vm, data, "expedited" if 1 <= len(data) <= 4 and rng.random() < 0.5 else "segmented",
                         rng.random() < 0.5, None, workload="history-download")
    for s in client.steps_seen:
        ctx.seen("protocol_steps", s)
    ctx.count("responses_validated", client.responses_validated)
    h.rig.close()


def run(ctx, desc):
    rigs.LogCapture()
    oracles.install_codec(ctx, prefix="ambient_codec")
    rng = random.Random(repr(("c02", desc["cs"])))
    for i in range(desc["ods"]):
        model = gen.random_model(rng, n_objects=10)
        h = Harness(ctx, model)
        value_matrix(ctx, h, rng, full_lengths=(i == 0))
        downloads(ctx, h, rng)
        ctx.count("responses_validated", h.rig.client.responses_validated)
        for s in h.rig.client.steps_seen:
            ctx.seen("protocol_steps", s)
        h.rig.close()
    for j in range(desc["histories"]):
        model = gen.random_model(rng, n_objects=6)
        history(ctx, model, rng, desc["hist_len"], f"{desc['cs']}-{j}")


def replay(ctx, case):
    ctx.case(("replay",))
    ctx.inconc("C02 witnesses are replayed by re-running the shard with the same seed (histories are stateful)", case)
