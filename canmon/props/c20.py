"""C20 - physical, described and bit-field views agree with the raw value.

Integer variables of every width with generated factor, value descriptions and
bit definitions, accessed as LocalNode.sdo[...], RemoteNode.sdo[...] over the
bus and as PdoVariable.  The raw value is observed *behind* the accessor
(LocalNode.data_store / PdoMap.data) and decoded by the reference codec.
"""
from __future__ import annotations

import random
from fractions import Fraction

from canmon import gen, rigs
from canmon.ref import codec as R

ID = "C20"
LEVEL = "exploration"
RULE = ("per integer type and view (local SDO, remote SDO over the bus, PDO variable): phys writes with factors 1e-3..1e3 of "
        "both signs (raw must be a nearest integer of value/factor, read-back within half a step); description writes/reads "
        "over tables of 1..20 entries; bit fields: every contiguous range [a,b) within min(32, width) bits (exhaustive for the "
        "local view of 8/16/32-bit types in quick, all types and views in thorough; sampled otherwise) in five spellings (int, "
        "list, slice(a,b), slice(a,b,1), defined name) with all values that fit for widths <= 6 and boundary/random values "
        "above. Signature = (view, type, accessor, spelling / class); non-trivial = raw before the write is not 0.")
RULE += (" " + 'Widened later: bit lists in any order, MSB-first definitions, negative-step slices, descriptions differing in case/blanks, objects with limits, generated array members, factors 1 / 1.0 / -1, accessor held across assignments.')
ASSUMPTIONS = ["values written to a bit field fit the field (the property says 'all field values that fit')",
               "ties in value/factor may round either way; float division error of 1e-9 relative is tolerated"]
REQUIRED = {"phys_checks": 300, "desc_checks": 100, "bits_checks": 2000}


def plan(tier, seed):
    types = list(R.INTEGERS)
    shards = []
    for i, dt in enumerate(types):
        for view in ("local", "remote", "pdo"):
            full = tier == "thorough" or (view == "local" and R.INTEGERS[dt] in (8, 16, 32))
            shards.append({"dt": dt, "view": view, "full_ranges": full, "n_phys": 60 if tier == "quick" else 4000,
                           "sample_ranges": 40 if tier == "quick" else 0, "cs": seed * 1000 + i * 3})
    groups = [[] for _ in range(16)]
    for i, s in enumerate(shards):
        groups[i % 16].append(s)
    return [{"runs": g} for g in groups]


class View:
    def __init__(self, view, dt, factor, descs, bitdefs, limits=None, member=None):
        import canopen
        self.view, self.dt = view, dt
        idx = gen.TYPE_INDEX_BASE + dt if member is None else 0x2200
        self.sub = member or 0
        self.idx = idx

        def od():
            d = gen.typed_od(rpdos=(), tpdos=(1,))
            if member is not None:
                # an array described by its first member only (the way an EDS with CompactSubObj does): the other members are
                # generated from that template and are the same kind of object - scaling, descriptions and bit names included
                d.add_object(gen.record("Scaled array", 0x2200, [gen.variable("Number of entries", 0x2200, 0, R.UNSIGNED8, "const", default=8),
                                                                 gen.variable("Channel", 0x2200, 1, dt)], array=True))
            v = d[idx] if member is None else d[idx][1]
            v.factor = factor
            if limits:
                v.min, v.max = limits          # LowLimit / HighLimit: raw units, like everything an EDS says about the object
            for val, name in descs.items():
                v.add_value_description(val, name)
            for name, bits in bitdefs.items():
                v.add_bit_definition(name, bits)
            return d
        self.rig = None
        if view == "pdo":
            self.node = canopen.RemoteNode(3, od())
            self.map = self.node.tpdo[1]
            self.map.clear()
            filler = R.UNSIGNED8 if dt != R.UNSIGNED8 else R.UNSIGNED16
            if R.INTEGERS[dt] <= 48:
                self.map.add_variable(gen.TYPE_INDEX_BASE + filler, 0)
            self.var = self.map.add_variable(idx, self.sub)
            self.off = self.var.offset // 8
        else:
            self.rig = rigs.PairRig(od, node_ids=(3,))
            self.local = self.rig.local
            self.var = self._pick(self.local.sdo if view == "local" else self.rig.node.sdo)
        self.idx = idx

    def _pick(self, sdo):
        entry = sdo[self.idx]
        return entry[self.sub] if self.sub else entry

    def accessor(self):
        """A fresh accessor object, like user code obtains it."""
        if self.view == "pdo":
            return self.var
        return self._pick(self.local.sdo if self.view == "local" else self.rig.node.sdo)

    def stored_raw(self):
        w = R.INTEGERS[self.dt] // 8
        if self.view == "pdo":
            b = bytes(self.map.data[self.off:self.off + w])
        else:
            b = self.local.data_store[self.idx][self.sub]
        return R.decode(self.dt, b)

    def close(self):
        if self.rig:
            self.rig.close()


def fits(lo, hi, v):
    return lo <= v <= hi


def run_one(ctx, desc):
    dt, view = desc["dt"], desc["view"]
    name = R.NAMES[dt]
    rng = random.Random(repr(("c20", desc["cs"], view)))
    lo, hi = R.int_range(dt)
    width = R.INTEGERS[dt]
    # ---- generated metadata
    mag = rng.choice([1e-3, 0.01, 0.1, 0.5, 1, 2, 2.5, 10, 1000.0, 3, 0.125, 7e-3])
    factor = mag * rng.choice([1, -1])
    if (desc["cs"] // 3) % 4 == 0:
        factor = rng.choice([1, 1.0, -1])          # the default factor: fractional requests must still round to nearest
    n_desc = rng.randint(1, 20)
    vals = set()
    while len(vals) < n_desc:
        vals.add(rng.choice([lo, hi, 0, 1, rng.randint(lo, hi), rng.randint(max(lo, -50), min(hi, 50))]))
    descs = {v: f"State {i} ({v})" for i, v in enumerate(sorted(vals))}
    if n_desc >= 2 and rng.random() < 0.6:
        # descriptions that differ only in letter case or surrounding blanks are different descriptions
        # (SI prefixes "m"/"M", "Auto"/"AUTO"/"auto "): each must write exactly the value it names
        family = rng.choice([["m", "M", " m", "M "], ["Auto", "AUTO", "auto", "auto ", " Auto"], ["on", "On", "ON", "oN"]])
        ks = sorted(vals)
        rng.shuffle(ks)
        for key, text in zip(ks, family[:rng.randint(2, len(family))]):
            descs[key] = text
    limits = None
    if (desc["cs"] // 3) % 3 == 1 and hi - lo > 64:
        # the object declares limits (raw units); requests stay inside them
        limits = (rng.randint(lo, lo // 2) if lo < 0 else rng.randint(0, hi // 8), rng.randint(hi // 2, hi))
    maxbit = min(32, width)
    bitdefs = {}
    for i in range(6):
        a = rng.randrange(maxbit)
        b = rng.randint(a + 1, maxbit)
        bitdefs[f"field{i}"] = list(range(a, b))
        if i % 2:
            bitdefs[f"field{i}"].reverse()          # a definition entered most significant bit first
    member = rng.choice([2, 3, 8]) if (desc["cs"] // 3) % 2 == 1 else None
    v = View(view, dt, factor, descs, bitdefs, limits, member)
    case0 = {"view": view, "type": name, "factor": factor, "limits": limits, "array_member": member}
    plo, phi = limits if limits else (lo, hi)
    try:
        # ---- physical values
        for _ in range(desc["n_phys"]):
            raw_target = rng.choice([lo, hi, 0, 1, -1 if lo < 0 else 1, rng.randint(lo, hi), rng.randint(max(lo, -1000), min(hi, 1000)),
                                     plo + 2, phi - 2, rng.randint(plo, phi)])
            x = raw_target * factor + rng.choice([0, 0, 0.3, -0.3, 0.49, -0.49, rng.uniform(-0.5, 0.5)]) * abs(factor)
            if rng.random() < 0.2:
                x = round(x) if abs(x) < 2**52 else x        # integers as physical values too
            q = Fraction(x) / Fraction(factor)
            margin = max(1, abs(q) / 10**9)       # the tolerated float division error must not leave the type's range
            if not (plo <= q - 1 and q + 1 <= phi and lo <= q - margin and q + margin <= hi):
                continue
            case = dict(case0, op="phys", x=x)
            ctx.case((view, name, "phys", "negf" if factor < 0 else "posf", "int" if isinstance(x, int) else "float",
                      "limits" if limits else "nolimits"), nontrivial=True)
            try:
                v.accessor().phys = x
                raw = v.stored_raw()
                back = v.accessor().phys
            except Exception as exc:  # noqa: BLE001
                ctx.violation(f"phys-raised:{type(exc).__name__}", f"phys = {x!r} on {name} (factor {factor}) raised {exc!r}", case)
                continue
            ctx.count("phys_checks")
            tol = Fraction(1, 2) + Fraction(1, 10**9) * max(1, abs(q))
            if abs(raw - q) > tol:
                ctx.violation("phys-raw-not-nearest", f"phys = {x!r} with factor {factor} stored raw {raw}, value/factor = {float(q)!r}", case)
            if abs(back - x) > abs(factor) / 2 * (1 + 1e-9) + 1e-9 * abs(x):
                ctx.violation("phys-readback-off", f"phys = {x!r} reads back {back!r} (more than half a step {abs(factor) / 2} away)", case)
            if abs(back - raw * factor) > 1e-9 * max(1.0, abs(raw * factor)):
                ctx.violation("phys-read-not-raw-times-factor", f"raw {raw} x factor {factor} != phys read {back!r}", case)
        # ---- descriptions
        for val, text in descs.items():
            case = dict(case0, op="desc", value=val, text=text)
            ctx.case((view, name, "desc", "min" if val == lo else "max" if val == hi else "mid"), nontrivial=val != 0)
            try:
                v.accessor().desc = text
                raw = v.stored_raw()
                back = v.accessor().desc
            except Exception as exc:  # noqa: BLE001
                ctx.violation(f"desc-raised:{type(exc).__name__}", f"desc = {text!r} raised {exc!r}", case)
                continue
            ctx.count("desc_checks")
            if raw != val:
                ctx.violation("desc-write-wrong-value", f"desc = {text!r} stored raw {raw}, the description names {val}", case)
            if back != text:
                ctx.violation("desc-read-wrong", f"raw {raw} is described as {back!r}, expected {text!r}", case)
        # every described value read back after a raw write
        for val, text in list(descs.items())[:8]:
            v.accessor().raw = val
            ctx.count("desc_checks")
            if v.accessor().desc != text:
                ctx.violation("desc-read-wrong", f"raw {val} is described as {v.accessor().desc!r}, expected {text!r}", dict(case0, op="desc-read", value=val))
        # ---- descriptions added after the first description write are usable too (tables grow over time)
        od_var = v.accessor().od
        extra_vals = [x for x in (lo, hi, 0, 1, 2, 3, 5, 7, 11, 13) if x not in descs][:3]
        for j, val in enumerate(extra_vals):
            text = f"Late entry {j}"
            od_var.add_value_description(val, text)
            ctx.count("desc_checks")
            ctx.case((view, name, "desc-added-later"), nontrivial=True)
            try:
                v.accessor().desc = text
                if v.stored_raw() != val or v.accessor().desc != text:
                    ctx.violation("desc-added-later", f"description {text!r} added after earlier use: raw {v.stored_raw()}, expected {val}", dict(case0, op="desc-late", value=val))
            except Exception as exc:  # noqa: BLE001
                ctx.violation(f"desc-raised:{type(exc).__name__}", f"desc = {text!r} (added after earlier use) raised {exc!r}", dict(case0, op="desc-late", value=val))
        # ---- one bits accessor held across several assignments
        if maxbit >= 4:
            for _ in range(10):
                a1 = rng.randrange(0, maxbit - 2)
                b1 = rng.randint(a1 + 1, maxbit - 1)
                a2 = rng.randrange(b1, maxbit)
                b2 = rng.randint(a2 + 1, maxbit)
                f1, f2 = rng.randrange(1 << (b1 - a1)), rng.randrange(1 << (b2 - a2))
                old = rng.choice([0, hi, rng.randint(lo, hi)])
                case = dict(case0, op="bits-held-accessor", ranges=[(a1, b1), (a2, b2)], values=[f1, f2], old_raw=old)
                ctx.case((view, name, "bits-held-accessor"), nontrivial=True)
                try:
                    v.accessor().raw = old
                    acc = v.accessor().bits
                    acc[list(range(a1, b1))] = f1
                    acc[slice(a2, b2, 1)] = f2
                    raw = v.stored_raw()
                    back1, back2 = acc[list(range(a1, b1))], acc[list(range(a2, b2))]
                except Exception as exc:  # noqa: BLE001
                    ctx.violation(f"bits-raised:{type(exc).__name__}:held-accessor", f"two assignments through one bits accessor raised {exc!r}", case)
                    continue
                ctx.count("bits_checks")
                u = old & ((1 << width) - 1)
                for a, b, fv in ((a1, b1, f1), (a2, b2, f2)):
                    m = ((1 << (b - a)) - 1) << a
                    u = (u & ~m) | (fv << a)
                want = u - (1 << width) if (lo < 0 and u >> (width - 1)) else u
                if raw != want:
                    ctx.violation("bits-held-accessor-lost-write", f"bits[{a1}:{b1}]={f1} then bits[{a2}:{b2}]={f2} through one accessor on raw {old:#x} gave {raw:#x}, expected {want:#x}", case)
                if (back1, back2) != (f1, f2):
                    ctx.violation("bits-held-accessor-stale-read", f"the accessor reads ({back1}, {back2}) after writing ({f1}, {f2})", case)
        # ---- bit fields
        ranges = [(a, b) for a in range(maxbit) for b in range(a + 1, maxbit + 1)]
        if not desc["full_ranges"]:
            ranges = rng.sample(ranges, min(len(ranges), desc["sample_ranges"])) + [(0, 1), (maxbit - 1, maxbit), (0, maxbit)]
        named = {tuple(sorted(bits)): nm for nm, bits in bitdefs.items()}
        for a, b in ranges:
            n = b - a
            spellings = [("list", list(range(a, b))), ("slice", slice(a, b)), ("slice-step", slice(a, b, 1))]
            if n == 1:
                spellings.append(("int", a))
            if tuple(range(a, b)) in named:
                nm = named[tuple(range(a, b))]
                spellings.append(("name-msb-first" if bitdefs[nm][0] > bitdefs[nm][-1] else "name", nm))
            if n > 1:
                # the same bits listed in another order are the same field
                spellings.append(("list-descending", list(range(b - 1, a - 1, -1))))
                shuffled = list(range(a, b))
                rng.shuffle(shuffled)
                spellings.append(("list-shuffled", shuffled))
                if a > 0:
                    spellings.append(("slice-negative-step", slice(b - 1, a - 1, -1)))
            if not desc["full_ranges"] or view != "local":
                pass
            for sp_name, key in spellings:
                fvals = range(1 << n) if n <= 6 else sorted({0, 1, (1 << n) - 1, 1 << (n - 1), rng.randrange(1 << n), rng.randrange(1 << n)})
                if n <= 6 and view != "local":
                    fvals = sorted({0, (1 << n) - 1, rng.randrange(1 << n)})
                for fv in fvals:
                    old = rng.choice([0, -1 if lo < 0 else hi, hi, lo, rng.randint(lo, hi)])
                    mask = ((1 << n) - 1) << a
                    # the result must still be a value of the type
                    new_expected = (old & ~mask) | (fv << a)
                    if width > 32 or lo < 0:
                        # two's complement arithmetic on the type's width
                        u = old & ((1 << width) - 1)
                        u = (u & ~mask) | (fv << a)
                        new_expected = u - (1 << width) if (lo < 0 and u >> (width - 1)) else u
                    case = dict(case0, op="bits", key=repr(key), field_value=fv, old_raw=old)
                    ctx.case((view, name, "bits", sp_name, "w1" if n == 1 else "w<=6" if n <= 6 else "wide", "top" if b == maxbit else "low" if a == 0 else "mid"),
                             nontrivial=old != 0)
                    try:
                        v.accessor().raw = old
                        v.accessor().bits[key] = fv
                        raw = v.stored_raw()
                        back = v.accessor().bits[key]
                    except Exception as exc:  # noqa: BLE001
                        ctx.violation(f"bits-raised:{type(exc).__name__}:{sp_name}", f"bits[{key!r}] = {fv} on {name} raised {exc!r}", case)
                        break
                    ctx.count("bits_checks")
                    if raw != new_expected:
                        ctx.violation(f"bits-write-wrong:{sp_name}", f"bits[{key!r}] = {fv} turned raw {old:#x} into {raw:#x}, expected {new_expected:#x}", case)
                    if back != fv:
                        ctx.violation(f"bits-read-wrong:{sp_name}", f"bits[{key!r}] reads {back} after writing {fv} (raw {raw:#x})", case)
        if len(ctx.samples) < 4:
            ctx.sample({"view": view, "type": name, "factor": factor, "descriptions": len(descs), "bit_ranges": len(ranges),
                        "bitdefs": {k: [b[0], b[-1]] for k, b in bitdefs.items()}})
    finally:
        v.close()


def run(ctx, desc):
    rigs.LogCapture()
    for r in desc["runs"]:
        run_one(ctx, r)


def replay(ctx, case):
    ctx.case(("replay",))
    ctx.inconc("re-run the shard with the same seed (metadata is generated per shard)", case)
