"""C10 - frames reach exactly the handlers subscribed at that moment.

One Network on a simulated station; random histories of subscribe / unsubscribe /
node add, replace, remove / received frames / sent frames, compared step by step
with a reference multimap (id -> ordered list of callbacks).  Node handlers are
judged by their observable effects (SDO response queue, EMCY log, NMT state,
frames emitted by a LocalNode).  Outgoing frame format and the node scanner are
checked exhaustively over all 2048 standard ids.
"""
from __future__ import annotations

import random

from canmon import gen, rigs, simbus

ID = "C10"
LEVEL = "exploration"
RULE = ("histories of 50 (quick) / 400 (thorough) operations over a pool of 9 CAN ids (incl. 0, node-owned ids, one 29-bit id), "
        "10 callbacks (plain functions, bound methods of two objects, two callable recorder objects that are falsy while empty) and nodes 1,2,5 (local/remote mixed); after every "
        "received frame the invocation log must equal the reference multimap's list. Reconnection: the same Network connected and disconnected 2-4 times on python-can's virtual bus with the real Notifier, judged once our own listener placed behind the network's has seen the frames. Frame format: every 11-bit id and "
        "sampled 29-bit ids through send_message and send_periodic. Scanner: every standard id alone (exhaustive) and random "
        "sequences incl. 29-bit ids. Signature = (operation kind, id class, state class); non-trivial = operation on an id "
        "with at least one subscriber or a node operation.")
RULE += (" " + "Widened later: format of cyclic tasks after update() on both task flavours, reconnect on python-can's virtual bus, removal / replacement of a node after a wholesale unsubscribe of one of its ids, falsy callable subscribers. Round 8: cyclic remote frames created without data (as node guarding does) are judged for their frame format; half of the scanner sequences reach the network through the bus listener on ids nobody subscribed to.")
ASSUMPTIONS = ["callbacks that (un)subscribe during dispatch are not generated", "PDO handlers after node removal are outside the property",
               "unsubscribe-all is only applied to ids no node owns (a node's own removal would otherwise legitimately fail)",
               "an extended frame whose id is <= 0x7FF cannot be told apart in Network.notify (no flag) and is not generated"]
REQUIRED = {"reconnect_cycles": 4, "dispatch_compared": 500, "frames_format_checked": 2048, "scanner_ids_checked": 2048, "node_effect_checks": 100}
EXHAUSTIVE = ["frame format rule for all 2048 standard ids", "scanner classification of all 2048 standard ids"]

SERVICES = (0x080, 0x180, 0x280, 0x380, 0x480, 0x580, 0x700)   # own transcription of the predefined connection set (node -> bus)
USER_IDS = [0x000, 0x123, 0x181, 0x585, 0x705, 0x085, 0x7E4, 0x605, 0x18ABCDEF]
FREE_IDS = [0x123, 0x18ABCDEF, 0x3FF]


def plan(tier, seed):
    n = 8
    return [{"histories": 12 if tier == "quick" else 300, "length": 50 if tier == "quick" else 400, "part": i, "parts": n,
             "cs": seed * 100 + i} for i in range(n)]


class Obj:
    def __init__(self, name, log):
        self.name, self.log = name, log

    def method(self, can_id, data, ts):
        self.log.append((self.name, can_id, bytes(data), ts))


class Recorder:
    """A callable frame recorder with a length: falsy until it has recorded something itself (identity equality)."""

    def __init__(self, name, log):
        self.name, self.log, self.own = name, log, 0

    def __call__(self, can_id, data, ts):
        self.own += 1
        self.log.append((self.name, can_id, bytes(data), ts))

    def __len__(self):
        return self.own


def od_factory():
    return gen.typed_od(rpdos=(), tpdos=(), heartbeat=True)


def expected_listed(can_id):
    return can_id <= 0x7FF and (can_id & 0x780) in SERVICES and (can_id & 0x7F) != 0


# ----------------------------------------------------------------------------- history
def history(ctx, rng, length, hid):
    import can
    import canopen
    bus = simbus.SimBus(mode="inline")
    net, st = simbus.make_network(bus, "net")
    log = []
    objs = [Obj("objA", log), Obj("objB", log)]
    funcs = {}
    for i in range(6):
        def f(can_id, data, ts, i=i):
            log.append((f"f{i}", can_id, bytes(data), ts))
        funcs[f"f{i}"] = f

    recs = {"recA": Recorder("recA", log), "recB": Recorder("recB", log)}

    def cb(name):
        if name.startswith("rec"):
            return recs[name]
        if name.startswith("obj"):
            return objs[0 if name == "objA" else 1].method     # a *new* bound method object every time
        return funcs[name]
    names = list(funcs) + ["objA", "objB", "recA", "recB"]
    model = {}                   # can_id -> [callback names] (user callbacks only)
    nodes = {}                   # node id -> node object
    removed = []                 # (node object, kind, id) that must stay untouched
    ops = []

    def case():
        return {"history": hid, "ops": ops[-16:]}

    def effects(node):
        if isinstance(node, canopen.RemoteNode):
            return (tuple(ch.responses.qsize() for ch in node.sdo_channels), len(node.emcy.log), node.nmt._state, node.nmt.timestamp)
        return (node.nmt._state,)

    def deliver(can_id, data, ts, how):
        """Feed one frame and compare the user-callback invocations with the model."""
        del log[:]
        before_removed = [(n, effects(n)) for n, _, _ in removed]
        before_live = {k: effects(n) for k, n in nodes.items()}
        mark = len(bus.log)
        try:
            if how == "notify":
                net.notify(can_id, bytearray(data), ts)
            else:
                msg = can.Message(arbitration_id=can_id, data=data, timestamp=ts, is_extended_id=can_id > 0x7FF,
                                  is_error_frame=(how == "error"), is_remote_frame=(how == "remote"), check=False)
                net.listeners[0].on_message_received(msg)
        except Exception as exc:  # noqa: BLE001
            ctx.violation(f"dispatch-raised:{type(exc).__name__}", f"delivering {can_id:#x} [{bytes(data).hex()}] raised {exc!r}", case())
            return
        want = [] if how in ("error", "remote") else [(n, can_id, bytes(data), ts) for n in model.get(can_id, [])]
        ctx.count("dispatch_compared")
        if log != want:
            mech = "dispatch-mismatch"
            got_names, want_names = [x[0] for x in log], [x[0] for x in want]
            if how in ("error", "remote") and log:
                mech = f"{how}-frame-dispatched"
            elif sorted(got_names) == sorted(want_names) and got_names != want_names:
                mech = "dispatch-order"
            elif len(got_names) > len(set(got_names)):
                mech = "dispatch-duplicate-delivery"
            elif got_names == want_names:
                mech = "dispatch-arguments"
            elif set(want_names) - set(got_names):
                mech = "dispatch-missing-callback"
            else:
                mech = "dispatch-unexpected-callback"
            ctx.violation(mech, f"frame {can_id:#x} invoked {log} but the callbacks subscribed at that moment are {want}", case())
        # removed / replaced nodes must be untouched and silent
        for (n, before), (_, kind, nid) in zip(before_removed, removed):
            ctx.count("node_effect_checks")
            if effects(n) != before:
                ctx.violation(f"removed-node-still-receives:{kind}", f"frame {can_id:#x} changed a removed {kind} node {nid}: {before} -> {effects(n)}", case())
        sent = [f for f in list(bus.log)[mark:] if f.src == "net"]
        live_local = [k for k, n in nodes.items() if isinstance(n, canopen.LocalNode)]
        for f in sent:
            nid = f.can_id & 0x7F
            if f.can_id & 0x780 == 0x580 and nid not in live_local:
                ctx.violation("removed-node-still-answers:local", f"frame {can_id:#x} made a node that is not on the network answer on {f.can_id:#x}", case())
        # live nodes do receive what is theirs (dispatch reaches node handlers too)
        if how not in ("error", "remote"):
            for k, n in nodes.items():
                ctx.count("node_effect_checks")
                changed = effects(n) != before_live[k]
                if isinstance(n, canopen.RemoteNode):
                    extra = [ch.tx_cobid for ch in n.sdo_channels]
                    mine = can_id in [0x80 + k, 0x700 + k] + extra and len(data) >= (8 if can_id == 0x80 + k else 1)
                    if can_id == 0x700 + k and mine:
                        # a heartbeat always leaves its timestamp and state behind (it may equal what was there before)
                        code = data[0] & 0x7F
                        if n.nmt.timestamp != ts or n.nmt._state != (127 if code == 0 else code):
                            ctx.violation("live-node-missed-frame:remote", f"heartbeat {can_id:#x} [{bytes(data).hex()}] at {ts} left state {n.nmt._state} / timestamp {n.nmt.timestamp} on live RemoteNode {k}", case())
                    elif mine and not changed:
                        ctx.violation("live-node-missed-frame:remote", f"frame {can_id:#x} had no effect on live RemoteNode {k}", case())
                    if changed and not mine and can_id != 0:
                        ctx.violation("node-received-foreign-frame:remote", f"frame {can_id:#x} changed RemoteNode {k}: {before_live[k]} -> {effects(n)}", case())
                else:
                    if can_id == 0x600 + k and len(data) == 8:
                        answers = [f for f in sent if f.can_id == 0x580 + k]
                        if len(answers) != 1:
                            ctx.violation("live-node-missed-frame:local", f"SDO request on {can_id:#x} got {len(answers)} answers from live LocalNode {k}", case())

    for step in range(length):
        r = rng.random()
        ts = rng.choice([0.0, 1000.0 + step, 1000.0 + step, 1.75e9 + step * 0.001, 2.5e-7])
        if r < 0.22:
            cid, name = rng.choice(USER_IDS), rng.choice(names)
            ops.append(("subscribe", hex(cid), name))
            net.subscribe(cid, cb(name))
            lst = model.setdefault(cid, [])
            dup = name in lst
            if not dup:
                lst.append(name)
            ctx.case(("subscribe", "dup" if dup else "new", "ext" if cid > 0x7FF else "std"), nontrivial=True)
        elif r < 0.34:
            cid, name = rng.choice(USER_IDS), rng.choice(names)
            ops.append(("unsubscribe", hex(cid), name))
            present = name in model.get(cid, [])
            try:
                net.unsubscribe(cid, cb(name))
                if not present:
                    pass    # tolerated silently
            except (KeyError, ValueError):
                if present:
                    ctx.violation("unsubscribe-present-raised", f"unsubscribe({cid:#x}, {name}) raised although it is subscribed", case())
            if present:
                model[cid].remove(name)
            ctx.case(("unsubscribe-one", "present" if present else "absent"), nontrivial=present)
        elif r < 0.38:
            cid = rng.choice(FREE_IDS)
            ops.append(("unsubscribe-all", hex(cid)))
            try:
                net.unsubscribe(cid)
            except KeyError:
                if cid in model and cid in net.subscribers:
                    ctx.violation("unsubscribe-all-raised", f"unsubscribe({cid:#x}) raised although the id is known", case())
            old_names = model.pop(cid, None) or []
            ctx.case(("unsubscribe-all",), nontrivial=True)
            if old_names and rng.random() < 0.6:
                # the same callbacks come back on the same id: they must be delivered to again
                for name in old_names:
                    ops.append(("subscribe", hex(cid), name))
                    net.subscribe(cid, cb(name))
                    model.setdefault(cid, []).append(name)
        elif r < 0.48:
            nid = rng.choice([1, 2, 5])
            kind = rng.choice(["remote", "local"])
            old = nodes.get(nid)
            if old is not None and rng.random() < 0.3:
                # adding the very same node object again must leave it connected
                ops.append(("re-add-same-node", nid))
                try:
                    net.add_node(old) if isinstance(old, canopen.RemoteNode) else net.create_node(old)
                except Exception as exc:  # noqa: BLE001
                    ctx.violation(f"add-node-raised:{type(exc).__name__}", f"re-adding node {nid} raised {exc!r}", case())
                ctx.case(("re-add-same-node", "remote" if isinstance(old, canopen.RemoteNode) else "local"), nontrivial=True)
                continue
            ops.append(("add-node", nid, kind))
            node = canopen.RemoteNode(nid, od_factory()) if kind == "remote" else canopen.LocalNode(nid, od_factory())
            if kind == "remote" and rng.random() < 0.5:
                node.add_sdo(0x640 + nid, 0x5C0 + nid)          # an additional SDO channel (before or after joining the network)
            try:
                net.add_node(node) if kind == "remote" else net.create_node(node)
            except Exception as exc:  # noqa: BLE001
                ctx.violation(f"add-node-raised:{type(exc).__name__}", f"adding {kind} node {nid} raised {exc!r}", case())
                continue
            if old is not None:
                removed.append((old, "remote" if isinstance(old, canopen.RemoteNode) else "local", nid))
            nodes[nid] = node
            ctx.case(("add-node", kind, "replace" if old is not None else "new"), nontrivial=True)
        elif r < 0.53 and nodes:
            nid = rng.choice(list(nodes))
            ops.append(("del-node", nid))
            old = nodes.pop(nid)
            try:
                del net[nid]
            except Exception as exc:  # noqa: BLE001
                ctx.violation(f"del-node-raised:{type(exc).__name__}", f"removing node {nid} raised {exc!r}", case())
            removed.append((old, "remote" if isinstance(old, canopen.RemoteNode) else "local", nid))
            ctx.case(("del-node", "remote" if isinstance(old, canopen.RemoteNode) else "local"), nontrivial=True)
        elif r < 0.9:
            pool = USER_IDS + [0x581, 0x582, 0x585, 0x701, 0x702, 0x705, 0x081, 0x082, 0x085, 0x601, 0x602, 0x605, 0, 0x5C1, 0x5C2, 0x5C5]
            cid = rng.choice(pool)
            if cid == 0:
                data = bytes([rng.choice([1, 2, 128, 129, 130]), rng.choice([0, 1, 2, 5, 9])])
            elif cid & 0x780 == 0x600:
                data = bytes([0x40, 0x00, 0x20 + rng.choice([0, 5, 7]), 0, 0, 0, 0, 0])
            elif cid & 0x780 == 0x700:
                data = bytes([rng.choice([0, 4, 5, 127, 0x85])])
            else:
                data = bytes(rng.getrandbits(8) for _ in range(8))
            how = rng.choice(["notify", "listener", "listener", "error", "remote"])
            ops.append(("frame", hex(cid), data.hex(), how))
            ctx.case(("frame", how, "subscribed" if model.get(cid) else "unsubscribed", "ext" if cid > 0x7FF else "std"),
                     nontrivial=bool(model.get(cid)) or bool(nodes))
            deliver(cid, data, ts, how)
        else:
            cid = rng.choice([rng.randint(0, 0x7FF), rng.randint(0x800, 0x1FFFFFFF), 0x7FF, 0x800])
            data = bytes(rng.getrandbits(8) for _ in range(rng.randint(0, 8)))
            remote = rng.random() < 0.3
            ops.append(("send", hex(cid), data.hex(), remote))
            check_send(ctx, net, st, bus, cid, data, remote, case())
            ctx.case(("send", "ext" if cid > 0x7FF else "std", remote), nontrivial=True)
    # table shape: no duplicate callback per id
    for cid, lst in net.subscribers.items():
        for i, c1 in enumerate(lst):
            if any(c1 == c2 for c2 in lst[i + 1:]):
                ctx.violation("subscriber-table-duplicate", f"id {cid:#x} holds the same callback twice", case())
    if len(ctx.samples) < 3:
        ctx.sample({"history": hid, "last_ops": ops[-10:], "subscriber_ids": sorted(hex(k) for k in net.subscribers)})
    bus.close()


def check_send(ctx, net, st, bus, cid, data, remote, case):
    mark = len(st.sent_msgs)
    try:
        net.send_message(cid, data, remote)
    except Exception as exc:  # noqa: BLE001
        ctx.violation(f"send-raised:{type(exc).__name__}", f"send_message({cid:#x}) raised {exc!r}", case)
        return
    ctx.count("frames_format_checked")
    msgs = list(st.sent_msgs)[mark:] if len(st.sent_msgs) < st.sent_msgs.maxlen else [st.sent_msgs[-1]]
    if len(msgs) != 1:
        ctx.violation("send-frame-count", f"{len(msgs)} frames handed to the bus for one send_message", case)
        return
    judge_msg(ctx, msgs[0], cid, data, remote, "send_message", case)


def judge_msg(ctx, m, cid, data, remote, via, case):
    want_ext = cid > 0x7FF
    if m.arbitration_id != cid or bool(m.is_remote_frame) != bool(remote) or (not remote and bytes(m.data) != bytes(data)):
        ctx.violation(f"frame-content:{via}", f"{via}({cid:#x}, {bytes(data).hex()}, remote={remote}) handed id {m.arbitration_id:#x} "
                      f"data {bytes(m.data).hex()} remote {m.is_remote_frame} to the bus", case)
    if bool(m.is_extended_id) != want_ext:
        ctx.violation(f"frame-format:{via}:{'ext' if want_ext else 'std'}", f"{via}({cid:#x}) used {'extended' if m.is_extended_id else 'standard'} format", case)


def frame_format_sweep(ctx, rng, part, parts):
    bus = simbus.SimBus(mode="inline")
    net, st = simbus.make_network(bus, "net", modifiable=bool(part % 2))      # both flavours of cyclic tasks over the shards
    ids = [i for i in range(0x800) if i % parts == part]
    ids += [rng.randint(0x800, 0x1FFFFFFF) for _ in range(200)] + [0x800, 0x1FFFFFFF, 0x801, 0xFFF, 0x10000]
    for cid in ids:
        data = bytes(rng.getrandbits(8) for _ in range(rng.randint(0, 8)))
        remote = rng.random() < 0.2
        check_send(ctx, net, st, bus, cid, data, remote, {"sweep": "send_message", "id": cid})
        ctx.case(("format-sweep", "ext" if cid > 0x7FF else "std"), nontrivial=True)
        if cid % 7 == 0 or cid > 0x7FF:
            no_data = remote and cid % 2 == 0          # a remote request has no data to hand over (node guarding does this)
            task = net.send_periodic(cid, None if no_data else data, 0.1, remote)
            ctx.count("frames_format_checked")
            judge_msg(ctx, task.msg, cid, data, remote, "send_periodic", {"sweep": "send_periodic", "id": cid})
            if not remote:
                # the frame a cyclic task transmits after its data was updated is still a frame of that id and format
                data2 = bytes(rng.getrandbits(8) for _ in range(rng.randint(0, 8)))
                task.update(data2)
                live = [t.current() for t in st.tasks]
                ctx.count("frames_format_checked")
                want = [(cid, data2, cid > 0x7FF, False)]
                got = [(c, bytes(d), bool(e), bool(r)) for c, d, e, r in live]
                if got != want:
                    ctx.violation(f"frame-format:send_periodic-after-update:{'ext' if cid > 0x7FF else 'std'}",
                                  f"after update() the cyclic task(s) of {cid:#x} transmit (id, data, extended, remote) {got}, expected {want}",
                                  {"sweep": "send_periodic-update", "id": cid, "modifiable": st.modifiable})
            task.stop()
    bus.close()


def scanner_sweep(ctx, rng, part, parts):
    import canopen
    bus = simbus.SimBus(mode="inline")
    net, st = simbus.make_network(bus, "net")
    # every standard id alone
    for cid in range(0x800):
        if cid % parts != part:
            continue
        net.scanner.reset()
        net.notify(cid, bytearray(b"\x00"), 1.0)
        ctx.count("scanner_ids_checked")
        want = [cid & 0x7F] if expected_listed(cid) else []
        ctx.case(("scanner-single", hex(cid & 0x780), "node0" if cid & 0x7F == 0 else "node"), nontrivial=True)
        if net.scanner.nodes != want:
            ctx.violation("scanner-single-std", f"after frame {cid:#x} alone the scanner lists {net.scanner.nodes}, expected {want}", {"scanner": "single", "id": cid})
    # sampled 29-bit ids never list anything
    for _ in range(300):
        cid = rng.choice([rng.randint(0x800, 0x1FFFFFFF), (rng.randint(1, 0x3FFFF) << 11) | rng.choice([0x701, 0x585, 0x181, 0x0FF])])
        net.scanner.reset()
        net.notify(cid, bytearray(b"\x05"), 1.0)
        ctx.count("scanner_ids_checked")
        ctx.case(("scanner-single", "ext"), nontrivial=True)
        if net.scanner.nodes:
            ctx.violation("scanner-lists-extended-id", f"29-bit id {cid:#x} made the scanner list node {net.scanner.nodes}", {"scanner": "ext", "id": cid})
    # random sequences: once each, first-appearance order
    feeder = bus.actor_station("feeder")
    for k in range(40):
        net.scanner.reset()
        seq = [rng.choice([rng.randint(0, 0x7FF), rng.choice(SERVICES) + rng.randint(0, 12), rng.randint(0x800, 0x1FFFFFFF)]) for _ in range(60)]
        want = []
        for cid in seq:
            if k % 2:
                feeder.send(cid, b"\x00" * 8)           # through the bus and the network's listener (nobody subscribed to most ids)
                ctx.count("scanner_frames_via_listener")
            else:
                net.notify(cid, bytearray(b"\x00" * 8), 2.0)
            if expected_listed(cid) and (cid & 0x7F) not in want:
                want.append(cid & 0x7F)
        ctx.case(("scanner-sequence",), nontrivial=True)
        if net.scanner.nodes != want:
            ctx.violation("scanner-sequence", f"scanner lists {net.scanner.nodes}, expected {want}", {"scanner": "sequence", "ids": [hex(i) for i in seq]})
    # active search sends one initiate-upload of 0x1000:00 per node id
    net.scanner.reset()
    mark = len(bus.log)
    net.scanner.search(limit=20)
    sent = [f for f in list(bus.log)[mark:]]
    if [f.can_id for f in sent] != [0x600 + i for i in range(1, 21)] or any(f.data != bytes.fromhex("4000100000000000") for f in sent):
        ctx.violation("scanner-search-frames", f"search(20) sent {[f.brief() for f in sent[:5]]}...", {"scanner": "search"})
    bus.close()


class Control:
    """Our own python-can listener, placed after the network's: once it has seen a frame the network's listener has too."""

    def __init__(self):
        self.seen = []

    def __call__(self, msg):
        self.on_message_received(msg)

    def on_message_received(self, msg):
        self.seen.append((msg.arbitration_id, bytes(msg.data)))

    def on_error(self, exc):
        pass

    def stop(self):
        pass


def reconnect_scenario(ctx, rng, tag):
    """The same Network object connected, disconnected and connected again on python-can's virtual bus (real Notifier)."""
    import os
    import time
    import can
    import canopen
    chan = f"c10-{os.getpid()}-{tag}"
    net = canopen.Network()
    got = []
    net.subscribe(0x123, lambda cid, d, ts: got.append((cid, bytes(d))))
    node = net.add_node(5, od_factory())
    ctl = Control()
    net.listeners.append(ctl)
    peer = can.Bus(interface="virtual", channel=chan)
    try:
        for cycle in range(rng.randint(2, 4)):
            case = {"scenario": "reconnect", "cycle": cycle}
            net.connect(interface="virtual", channel=chan)
            try:
                del got[:]
                state = rng.choice([4, 5, 127])
                frames = [(0x123, bytes(rng.getrandbits(8) for _ in range(rng.randint(0, 8)))) for _ in range(rng.randint(1, 4))]
                frames.append((0x705, bytes([state])))
                mark = len(ctl.seen)
                for cid, data in frames:
                    peer.send(can.Message(arbitration_id=cid, data=data, is_extended_id=False))
                deadline = time.monotonic() + 10.0
                while len(ctl.seen) < mark + len(frames) and time.monotonic() < deadline:
                    time.sleep(0.002)
                if len(ctl.seen) < mark + len(frames):
                    ctx.inconc("the notifier did not hand the frames to any listener within 10 s", case)
                    return
                ctx.count("dispatch_compared")
                ctx.count("reconnect_cycles")
                ctx.case(("reconnect", "first" if cycle == 0 else "again"), nontrivial=True)
                want = [f for f in frames if f[0] == 0x123]
                if got != want:
                    ctx.violation("dispatch-missing-callback:after-reconnect" if cycle else "dispatch-missing-callback",
                                  f"connection #{cycle + 1} of the same Network: frames {[(hex(c), d.hex()) for c, d in want]} reached the "
                                  f"network's listener but the subscriber got {got}", case)
                if node.nmt._state != state:
                    ctx.violation("live-node-missed-frame:remote", f"connection #{cycle + 1}: heartbeat [{state}] left state {node.nmt._state}", case)
                # outgoing direction
                net.send_message(0x222, b"\x01\x02")
                m = peer.recv(5.0) or peer.recv(40.0)         # (generous: only a frame that never arrives is a finding)
                if m is None or m.arbitration_id != 0x222 or bytes(m.data) != b"\x01\x02":
                    ctx.violation("send-after-reconnect", f"connection #{cycle + 1}: send_message reached the bus as {m}", case)
            finally:
                net.disconnect()
    except Exception as exc:  # noqa: BLE001
        ctx.violation(f"reconnect-raised:{type(exc).__name__}", f"connect/disconnect cycle raised {exc!r}", {"scenario": "reconnect"})
    finally:
        peer.shutdown()


def damaged_node_scenarios(ctx, rng, hid):
    """An application unsubscribed one of a node's CAN ids wholesale (Network.unsubscribe(id), which add_node(...,
    upload_eds=True) also does for the SDO id) and then removes or replaces the node.  Whatever the library makes of
    that - refuse, or carry it through - a node that is *gone from the network* must be deaf."""
    import canopen
    for kind in ("remote", "local"):
        for how in ("del", "pop", "replace"):
            for victim in ("sdo", "heartbeat", "emcy", "nmt"):
                if kind == "local" and victim in ("heartbeat", "emcy"):
                    continue
                bus = simbus.SimBus(mode="inline")
                net, st = simbus.make_network(bus, "net")
                nid = rng.choice([1, 2, 5, 100])
                node = canopen.RemoteNode(nid, od_factory()) if kind == "remote" else canopen.LocalNode(nid, od_factory())
                net.add_node(node) if kind == "remote" else net.create_node(node)
                cid = {"sdo": (0x580 if kind == "remote" else 0x600) + nid, "heartbeat": 0x700 + nid, "emcy": 0x80 + nid, "nmt": 0}[victim]
                case = {"scenario": "damaged-node", "kind": kind, "how": how, "unsubscribed": hex(cid), "history": hid}
                ctx.case(("damaged-node", kind, how, victim), nontrivial=True)
                try:
                    net.unsubscribe(cid)
                except KeyError:
                    bus.close()
                    continue
                raised = None
                try:
                    if how == "del":
                        del net[nid]
                    elif how == "pop":
                        net.pop(nid)
                    else:
                        repl = canopen.RemoteNode(nid, od_factory()) if kind == "remote" else canopen.LocalNode(nid, od_factory())
                        net.add_node(repl) if kind == "remote" else net.create_node(repl)
                except Exception as exc:  # noqa: BLE001
                    raised = exc
                gone = net.nodes.get(nid) is not node

                def probe():
                    before = (node.nmt._state, node.nmt.timestamp if kind == "remote" else None, len(node.emcy.log) if kind == "remote" else 0)
                    mark = len(bus.log)
                    if kind == "remote":
                        if victim != "heartbeat":
                            net.notify(0x700 + nid, bytearray([5 if node.nmt._state != 5 else 4]), 77.0)
                        if victim != "emcy":
                            net.notify(0x80 + nid, bytearray(b"\x10\x81\x01\x00\x00\x00\x00\x00"), 78.0)
                    else:
                        if victim != "nmt":
                            net.notify(0, bytearray([1 if node.nmt._state != 5 else 2, nid]), 79.0)
                        if victim != "sdo":
                            net.notify(0x600 + nid, bytearray(b"\x40\x17\x10\x00\x00\x00\x00\x00"), 80.0)
                    after = (node.nmt._state, node.nmt.timestamp if kind == "remote" else None, len(node.emcy.log) if kind == "remote" else 0)
                    answered = any(f.src == "net" and f.can_id == 0x580 + nid for f in list(bus.log)[mark:])
                    return before != after or answered
                heard = probe()
                ctx.count("node_effect_checks")
                if gone and heard:
                    ctx.violation(f"removed-node-still-receives:{kind}:after-wholesale-unsubscribe",
                                  f"{how} of {kind} node {nid} (after unsubscribe({cid:#x})) {'raised ' + repr(raised) if raised else 'returned'}; the node is no "
                                  "longer on the network but its handlers still react to frames", case)
                # (a refused removal that leaves the still-registered node partly detached is the library's business: the
                # property only speaks about nodes that *are* removed or replaced)
                bus.close()


def run(ctx, desc):
    rigs.LogCapture()
    rng = random.Random(repr(("c10", desc["cs"])))
    for h in range(desc["histories"]):
        history(ctx, rng, desc["length"], f"{desc['cs']}-{h}")
    for k in range(2 if desc["histories"] < 100 else 10):
        reconnect_scenario(ctx, rng, f"{desc['cs']}-{k}")
    damaged_node_scenarios(ctx, rng, f"{desc['cs']}")
    frame_format_sweep(ctx, rng, desc["part"], desc["parts"])
    scanner_sweep(ctx, rng, desc["part"], desc["parts"])


def replay(ctx, case):
    ctx.case(("replay",))
    ctx.inconc("C10 witnesses are replayed by re-running the shard with the same seed (histories are stateful)", case)
