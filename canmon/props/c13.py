"""C13 - SDO block upload returns exactly the server's data or fails visibly.

Real client (open('rb', block_transfer=True)) <-> reference block-upload server
that restarts numbering at 1 after a partial acknowledge.  Fault plan on the
server->client path: lost / bit-flipped / duplicated segments, wrong CRC, wrong
end frame.  Oracles: bytes returned == server value; server-side validation of
the client's acknowledges and end frame; with CRC negotiated any fault ends in
an SdoError or in exactly the server's value.
"""
from __future__ import annotations

import random

from canmon import faults, rigs
from canmon.props.c01 import payload

ID = "C13"
LEVEL = "fault_enumeration"
RULE = ("undisturbed: (value length, client block size, CRC requested/supported, read style); lengths 1..64 exhaustive, "
        "888..890, 895..897, 1777..1779 and larger. Faults (CRC negotiated): EVERY single segment position lost, every "
        "segment position with one flipped data bit, duplicated segments, wrong CRC, wrong end frame (specifier / "
        "sub-command), lost end frame, lost initiate response. The same faults without CRC are run and recorded only. "
        "Signature = (kind, length class, blksize, crc, fault class, position class); non-trivial = more than one segment "
        "or a fault.")
RULE += (" " + 'Widened later: lengths whose last segment starts with a server command byte, all-zero values without announced size, buffer-reusing back end, wrong checksums with intact data, undisturbed follow-up upload after a failed one, partial acknowledges in undisturbed runs.')
RULE += (" " + "Widened later: raw (unbuffered) streams are read with sizes 1..9 as well as 7.")
ASSUMPTIONS = ["reference server retransmits from the first unacknowledged segment numbering from 1 (CiA 301)",
               "without CRC negotiated the property promises nothing about corrupted data (observation only)"]
REQUIRED = {"undisturbed_compared": 100, "fault_cases_crc": 100, "server_frames_validated": 500}


def lenclass(n):
    r = n % 7
    return ("1seg" if n <= 7 else "s" if n <= 70 else "m" if n <= 889 else "l") + {0: ":7k", 1: ":7k+1", 6: ":7k-1"}.get(r, ":r")


def plan(tier, seed):
    if tier == "quick":
        lengths = list(range(1, 65)) + [888, 889, 890, 895, 896, 897, 1777, 1778, 1779]
        fault_sets = [(50, 127), (100, 5), (23, 2), (64, 3), (900, 127), (15, 1)]
    else:
        lengths = list(range(1, 200)) + [888, 889, 890, 895, 896, 897, 1777, 1778, 1779, 4096, 10000, 20000]
        fault_sets = [(50, 127), (100, 5), (23, 2), (64, 3), (900, 127), (15, 1), (1000, 64), (200, 10), (8, 127), (7, 127),
                      (1800, 127), (301, 4), (889, 127), (890, 127), (63, 9), (500, 7), (129, 2), (2500, 100), (64, 64)]
    shards = [{"kind": "undisturbed", "lengths": lengths[i::8], "cs": seed * 100 + i} for i in range(8)]
    # lengths whose *last segment* starts with a byte that is also a legal server command byte (c bit + sequence number
    # 64..93 = 0xC0..0xDD: block upload initiate / end responses): data segments must be told from them by protocol step,
    # not by their first byte
    alias = [7 * sq - n for sq in range(64, 94) for n in range(7)]
    for i in range(2):
        shards.append({"kind": "undisturbed", "lengths": alias[i::2], "cs": seed * 100 + 40 + i, "blks": [127, 93], "crcs": [(True, True)]})
    for i, (n, blk) in enumerate(fault_sets):
        for crc in (True, False):
            shards.append({"kind": "fault", "n": n, "blk": blk, "crc": crc, "size_ind": (i + int(crc)) % 2 == 0, "cs": seed * 100 + 50 + i})
    shards.append({"kind": "fault", "n": 150, "blk": 7, "crc": True, "size_ind": True, "zeros": True, "cs": seed * 100 + 90})
    # all-zero value (CRC-16/XMODEM is blind to missing zero bytes) from a server that does not announce the size:
    # only correct acknowledging saves the data
    shards.append({"kind": "fault", "n": 150, "blk": 7, "crc": True, "size_ind": False, "zeros": True, "cs": seed * 100 + 91})
    if tier != "quick":
        shards.append({"kind": "fault", "n": 1800, "blk": 127, "crc": True, "size_ind": False, "zeros": True, "cs": seed * 100 + 92})
        shards.append({"kind": "fault", "n": 64, "blk": 3, "crc": True, "size_ind": False, "zeros": True, "cs": seed * 100 + 93})
    return shards


def stream_class():
    from canopen.sdo.client import BlockUploadStream
    return BlockUploadStream


def do_block_upload(rig, c):
    sdo = rig.sdo
    cls = stream_class()
    old = cls.blksize
    cls.blksize = c["blk"]
    try:
        style = c.get("style", "all")
        kw = dict(block_transfer=True, request_crc_support=c.get("crc", True))
        if style == "raw":
            out = bytearray()
            rng = random.Random(repr(("c13rawreads", c.get("seed"))))
            sevens = rng.random() < 0.5        # else: any size; whatever the raw stream hands out per call, the pieces are the value
            with sdo.open(c["mux"][0], c["mux"][1], "rb", buffering=0, **kw) as fp:
                for _ in range(100000):
                    chunk = fp.read(7 if sevens else rng.randint(1, 9))
                    if not chunk:
                        break
                    out += chunk
            return bytes(out)
        if style == "rawinto":
            rng = random.Random(repr(("c13reads", c.get("seed"))))
            out = bytearray()
            with sdo.open(c["mux"][0], c["mux"][1], "rb", buffering=0, **kw) as fp:
                for _ in range(200000):
                    buf = bytearray(rng.randint(1, 9))
                    k = fp.readinto(buf)
                    if not k:
                        break
                    out += buf[:k]
            return bytes(out)
        if style == "chunks":
            rng = random.Random(repr(("c13reads", c.get("seed"))))
            out = bytearray()
            with sdo.open(c["mux"][0], c["mux"][1], "rb", buffering=rng.choice([3, 5, 8, 64, 1024]), **kw) as fp:
                for _ in range(100000):
                    chunk = fp.read(rng.randint(1, 50))
                    if not chunk:
                        break
                    out += chunk
            return bytes(out)
        with sdo.open(c["mux"][0], c["mux"][1], "rb", **kw) as fp:
            return fp.read()
    finally:
        cls.blksize = old


def run(ctx, desc):
    if desc["kind"] == "undisturbed":
        run_undisturbed(ctx, desc)
    else:
        run_faults(ctx, desc)


def run_undisturbed(ctx, desc):
    rng = random.Random(repr(("c13u", desc["cs"])))
    for n in desc["lengths"]:
        for blk in desc.get("blks") or (127, 1, 2, 7, 64, rng.randint(3, 126)):
            for crc_req, crc_sup in desc.get("crcs") or ((True, True), (False, True), (True, False)):
                c = {"kind": "undisturbed", "n": n, "blk": blk, "crc": crc_req, "crc_support": crc_sup, "size_ind": rng.random() < 0.6,
                     "style": rng.choice(["all", "raw", "chunks", "chunks", "rawinto"]), "seed": rng.randint(0, 1 << 30),
                     "mux": [rng.choice([0x1F50, 0x2000, 0xFFFF]), rng.choice([0, 1, 255])],
                     # how the back end hands frames over: python-can messages, or Network.notify() from one reused buffer
                     "backend": rng.choice(["listener", "listener", "notify-reuse"])}
                run_undisturbed_case(ctx, c)


def run_undisturbed_case(ctx, c):
    rig = rigs.ClientRig(node_id=9, timeout=0.004, crc_support=c["crc_support"], block_upload_size_indicated=c.get("size_ind", True),
                         via=c.get("backend", "listener"))
    value = payload(c["n"], c["seed"])
    rig.server.store[tuple(c["mux"])] = value
    ctx.case((c["kind"], lenclass(c["n"]), c["blk"] if c["blk"] in (1, 2, 7, 64, 127) else "rand", c["crc"] and c["crc_support"], c["style"], c.get("size_ind", True),
              c.get("backend", "listener")), nontrivial=c["n"] > 7)
    try:
        got = do_block_upload(rig, c)
        ctx.count("undisturbed_compared")
        if got != value:
            ctx.violation("block-upload-wrong-bytes", f"returned {len(got)} bytes {got[:40].hex()}..., server holds {len(value)} bytes {value[:40].hex()}...", c, rig.wire(30))
        if "bul_ack_partial" in rig.server.steps_seen:
            ctx.violation("block-upload-partial-acknowledge-undisturbed", "an undisturbed sub-block was acknowledged with a sequence number "
                          "below the number of segments sent", c, rig.wire(30))
        if rig.server.state != "idle" or rig.server.completed != 1:
            ctx.violation("block-upload-not-closed", f"server state {rig.server.state}, completed {rig.server.completed} after a normal return", c, rig.wire(30))
    except Exception as exc:  # noqa: BLE001
        ctx.violation(f"block-upload-raised:{type(exc).__name__}", f"undisturbed block upload raised {exc!r}", c, rig.wire(30))
    for mech, msg in rig.server.violations:
        ctx.violation("wire:" + mech, msg, c, rig.wire(30))
    ctx.count("server_frames_validated", rig.server.frames_seen)
    for s in rig.server.steps_seen:
        ctx.seen("protocol_steps", s)
    if len(ctx.samples) < 3 and c["n"] in (9, 16, 23):
        ctx.sample({"case": c, "wire": rig.wire(14)})
    rig.close()


def run_faults(ctx, desc):
    from canopen.sdo.exceptions import SdoError
    n, blk, crc = desc["n"], desc["blk"], desc["crc"]
    rng = random.Random(repr(("c13f", desc["cs"])))
    nseg = -(-n // 7)
    c0 = {"n": n, "blk": blk, "crc": crc, "crc_support": True, "mux": [0x1F50, 1], "seed": desc["cs"], "style": "all",
          "size_ind": desc.get("size_ind", True)}
    value = payload(n, c0["seed"]) if not desc.get("zeros") else bytes(n)
    c0["zeros"] = bool(desc.get("zeros"))

    def seg_pred(rig):
        return lambda f: f.src == "refserver" and f.can_id == rig.tx and rig.server.state == "bul_data"

    def end_pred(rig):
        return lambda f: f.src == "refserver" and f.can_id == rig.tx and rig.server.state == "bul_end" and f.data[0] & 0xE3 == 0xC1

    def init_pred(rig):
        return lambda f: f.src == "refserver" and f.can_id == rig.tx and f.data[0] & 0xE3 == 0xC2

    def one(c, plan_factory):
        rig = rigs.ClientRig(node_id=9, timeout=0.003, crc_support=True, block_upload_size_indicated=desc.get("size_ind", True))
        rig.server.store[tuple(c["mux"])] = value
        rig.bus.fault = plan_factory(rig)
        exc, got = None, None
        try:
            got = do_block_upload(rig, c)
        except Exception as e:  # noqa: BLE001
            exc = e
        fired = rig.bus.fault.fired
        if not fired:
            ctx.inconc("fault plan never fired", c)
        elif crc:
            ctx.count("fault_cases_crc")
            if exc is None and got != value:
                ctx.violation("block-upload-crc-wrong-data-returned:" + c["kind"],
                              f"{c['kind']} at {c.get('k')}: returned {len(got)} bytes differing from the server's {len(value)} bytes "
                              f"although CRC was negotiated", c, rig.wire(40))
            elif exc is None and c["kind"].startswith("wrong-crc"):
                ctx.violation("block-upload-wrong-checksum-accepted:" + c["kind"],
                              f"the end frame carried a wrong checksum ({c['kind']}) and the call returned normally", c, rig.wire(12))
            elif exc is not None and not isinstance(exc, SdoError):
                ctx.violation(f"block-upload-fault-raised-non-sdo-error:{type(exc).__name__}:{c['kind']}",
                              f"{c['kind']} at {c.get('k')}: raised {exc!r} (not an SdoError)", c, rig.wire(40))
        else:
            ctx.count("fault_cases_nocrc_observed")
            if exc is None and got != value:
                ctx.add("observed_silent_corruption_without_crc")
        ctx.seen("outcomes", f"{'crc' if crc else 'nocrc'}:{c['kind']}:{'ok' if exc is None and got == value else 'wrong' if exc is None else type(exc).__name__}")
        if fired and exc is not None and crc and c.get("k", 0) % 3 == 0:
            # the same client afterwards (the application aborts explicitly first, as after any failed transfer): an
            # undisturbed block upload returns the value - nothing of the failed one (checksum state, counters) is left
            rig.bus.fault = None
            try:
                rig.sdo.abort(0x08000000)
            except Exception:  # noqa: BLE001
                pass
            rig.server.state = "idle"
            try:
                again = do_block_upload(rig, c)
                ctx.count("followup_block_uploads")
                if again != value:
                    ctx.violation("followup-block-upload-wrong-data", f"undisturbed block upload after a failed one ({c['kind']}) returned {len(again)} bytes "
                                  f"differing from the server's {len(value)}", c, rig.wire(30))
            except Exception as e2:  # noqa: BLE001
                ctx.violation(f"followup-block-upload-failed:{type(e2).__name__}", f"undisturbed block upload after a failed one ({c['kind']} at {c.get('k')}, "
                              f"{type(exc).__name__}) raised {e2!r}", c, rig.wire(30))
        rig.close()

    def posclass(k):
        last_of_block = (k + 1) % blk == 0
        return "last-overall" if k == nseg - 1 else "last-of-subblock" if last_of_block else "first" if k % blk == 0 else "mid"

    for k in range(nseg):
        c = dict(c0, kind="lost-segment", k=k)
        ctx.case((c["kind"], lenclass(n), blk, crc, posclass(k), desc.get("size_ind", True)))
        one(c, lambda rig, k=k: faults.OneShot(seg_pred(rig), k, faults.drop))
        byte, bit = rng.randint(1, 7), rng.randint(0, 7)
        if k == nseg - 1 and n % 7:
            byte = rng.randint(1, n % 7)
        c = dict(c0, kind="flipped-bit", k=k, byte=byte, bit=bit)
        ctx.case((c["kind"], lenclass(n), blk, crc, posclass(k)))
        one(c, lambda rig, k=k, byte=byte, bit=bit: faults.OneShot(seg_pred(rig), k, faults.flip_bit(byte, bit)))
    for k in range(0, nseg, max(1, nseg // 10)):
        c = dict(c0, kind="duplicated-segment", k=k)
        ctx.case((c["kind"], lenclass(n), blk, crc, posclass(k)))
        one(c, lambda rig, k=k: faults.OneShot(seg_pred(rig), k, faults.duplicate))
        c = dict(c0, kind="seqno-corrupted", k=k)
        ctx.case((c["kind"], lenclass(n), blk, crc, posclass(k)))
        one(c, lambda rig, k=k: faults.OneShot(seg_pred(rig), k, faults.flip_bit(0, rng.randint(0, 6))))
    for kind, act in (("wrong-crc-zero", lambda f: [f.replace(data=bytes([f.data[0], 0, 0]) + f.data[3:])] if f.data[1:3] != b"\x00\x00" else [f.replace(data=bytes([f.data[0], 1, 0]) + f.data[3:])]),
                      ("wrong-crc", lambda f: [f.replace(data=bytes([f.data[0], f.data[1] ^ 0x01]) + f.data[2:])]),
                      ("wrong-crc-hi", lambda f: [f.replace(data=f.data[:2] + bytes([f.data[2] ^ 0x80]) + f.data[3:])]),
                      ("end-wrong-specifier", lambda f: [f.replace(data=bytes([0x41 | (f.data[0] & 0x1C)]) + f.data[1:])]),
                      ("end-wrong-subcommand", lambda f: [f.replace(data=bytes([f.data[0] & 0xFC | 0x02]) + f.data[1:])]),
                      ("end-replaced-by-abort", lambda f: [f.replace(data=bytes.fromhex("80501f0100000408"))]),
                      ("end-lost", faults.drop)):
        c = dict(c0, kind=kind)
        ctx.case((kind, lenclass(n), blk, crc))
        one(c, lambda rig, act=act: faults.OneShot(end_pred(rig), 0, act))
    # end frame announcing a wrong number of unused bytes (only detectable through the CRC)
    if n % 7 and not (desc.get("zeros") and not desc.get("size_ind", True)):
        # (for an all-zero value whose size was not announced a wrong count is invisible to any client: the checksum of
        # k zero bytes is the same for every k - an indistinguishable fault, not generated)
        c = dict(c0, kind="end-wrong-n")
        ctx.case(("end-wrong-n", lenclass(n), blk, crc))
        one(c, lambda rig: faults.OneShot(end_pred(rig), 0, lambda f: [f.replace(data=bytes([f.data[0] ^ 0x04]) + f.data[1:])]))
    for kind, act in (("init-lost", faults.drop),
                      ("init-wrong-mux", lambda f: [f.replace(data=f.data[:1] + bytes([f.data[1] ^ 1]) + f.data[2:])]),
                      ("init-wrong-specifier", lambda f: [f.replace(data=bytes([0x41]) + f.data[1:])]),
                      ("init-abort", lambda f: [f.replace(data=bytes.fromhex("80501f0100000206"))])):
        c = dict(c0, kind=kind)
        ctx.case((kind, lenclass(n), blk, crc))
        one(c, lambda rig, act=act: faults.OneShot(init_pred(rig), 0, act))
    ctx.sample({"fault_run": {"n": n, "blk": blk, "crc": crc, "segments": nseg}})


def replay(ctx, case):
    if case["kind"] == "undisturbed":
        run_undisturbed_case(ctx, case)
    else:
        run_faults(ctx, {"n": case["n"], "blk": case["blk"], "crc": case["crc"], "cs": case["seed"], "size_ind": case.get("size_ind", True),
                         "zeros": case.get("zeros", False)})
