"""C14 - exporting a dictionary to EDS/DCF and importing it again loses nothing.

gen.eds_model -> real ObjectDictionary built in code (gen.build_od), and also
dictionaries obtained by importing ref.eds_writer text (raw texts kept) ->
canopen.export_od to a file name (.eds/.dcf), an open text stream and stdout ->
canopen.import_od -> comparison with the model (canmon.odcompare).  The three
destinations must yield the same document modulo the [FileInfo] section.
"""
from __future__ import annotations

import contextlib
import io
import os
import random
import re
import shutil

from canmon import gen, odcompare, rigs
from canmon.ref import codec as R
from canmon.ref import eds_writer

ID = "C14"
LEVEL = "exploration"
RULE = ("case = one generated dictionary (indexes in the communication, manufacturer and profile areas; all data types; signed "
        "and unsigned defaults and limits at the range ends; $NODEID-relative defaults; records and arrays of 1..20 members; "
        "names with spaces, '%' and '=') built in code or obtained by import, exported as EDS or DCF to each of the three "
        "destination kinds and re-imported. Signature = (origin, doc type, destination); every dictionary is non-trivial.")
ASSUMPTIONS = ["the [FileInfo] section (time stamps) is masked when documents are compared",
               "string values are ASCII without leading/trailing blanks; limits on REAL types are not generated",
               "EDS export does not carry parameter values, bit rate or node id (the property demands them for DCF only)"]
REQUIRED = {"roundtrip.dictionaries_compared": 50, "roundtrip.variables_compared": 2000, "documents_compared": 50}


def plan(tier, seed):
    n = 8
    return [{"count": 14 if tier == "quick" else 1200, "cs": seed * 100 + i} for i in range(n)]


def mask_fileinfo(text):
    return re.sub(r"\[FileInfo\].*?(?=\n\[)", "[FileInfo]\n", text, flags=re.S)


def run(ctx, desc):
    import canopen
    rigs.LogCapture()
    rng = random.Random(repr(("c14", desc["cs"])))
    work = os.path.join(os.path.dirname(os.path.dirname(os.path.dirname(os.path.abspath(__file__)))), ".work", f"c14-{desc['cs']}-{os.getpid()}")
    os.makedirs(work, exist_ok=True)
    try:
        for k in range(desc["count"]):
            doc = rng.choice(["eds", "dcf"])
            dcf = doc == "dcf"
            node_id = rng.randint(1, 127)
            origin = rng.choice(["code", "code", "imported"])
            model = gen.eds_model(rng, node_id=node_id, dcf=dcf, n_objects=rng.randint(6, 20), compact=False)
            case = {"k": k, "origin": origin, "doc": doc, "cs": desc["cs"], "node_id": node_id}
            try:
                if origin == "code":
                    od = gen.build_od(model, node_id)
                else:
                    text0 = eds_writer.write(model, eds_writer.Style(random.Random(rng.randint(0, 1 << 30))), dcf=True)
                    fp = io.StringIO(text0)
                    fp.name = "src.dcf"
                    od = canopen.import_od(fp, node_id)
            except Exception as exc:  # noqa: BLE001
                ctx.violation(f"build-raised:{type(exc).__name__}", f"building the dictionary raised {exc!r}", case)
                continue
            docs = {}
            for dest in ("path", "stream", "stdout"):
                c = dict(case, destination=dest)
                ctx.case((origin, doc, dest), nontrivial=True)
                try:
                    if dest == "path":
                        path = os.path.join(work, f"out{k}.{doc}")
                        canopen.export_od(od, path)
                        text = open(path).read()
                        os.unlink(path)
                    elif dest == "stream":
                        fp = io.StringIO()
                        canopen.export_od(od, fp, doc_type=doc)
                        text = fp.getvalue()
                    else:
                        buf = io.StringIO()
                        with contextlib.redirect_stdout(buf):
                            canopen.export_od(od, None, doc_type=doc)
                        text = buf.getvalue()
                    docs[dest] = text
                    fp = io.StringIO(text)
                    fp.name = "back." + doc
                    # a DCF carries its node id: re-importing it needs no explicit one
                    od2 = canopen.import_od(fp, None if (dcf and dest == "stream") else node_id)
                except Exception as exc:  # noqa: BLE001
                    ctx.violation(f"roundtrip-raised:{type(exc).__name__}:{dest}", f"export/import via {dest} raised {type(exc).__name__}: {exc}", c)
                    continue
                odcompare.compare(ctx, model, od2, c, "roundtrip", dcf=dcf, node_known=True, check_value=dcf, check_relative=False,
                                  check_node=dcf, expect_node_id=node_id if dcf else None, expect_bitrate=model.bitrate if dcf else None)
            # ---- edit the dictionary and export it again: the second document must describe the edited dictionary
            try:
                edited = 0
                for o, vm in model.variables():
                    if o.kind == "var" and vm.dt in (R.UNSIGNED16, R.UNSIGNED32, R.INTEGER16, R.INTEGER32, R.UNSIGNED8) and vm.default_rel is None and edited < 4:
                        lo_, hi_ = R.int_range(vm.dt)
                        vm.default = rng.randint(lo_, hi_)
                        od[vm.index].default = vm.default
                        if origin == "imported":
                            od[vm.index].default_raw = None          # the application replaced the text read from the file
                        if dcf:
                            vm.value = rng.randint(lo_, hi_)
                            od[vm.index].value = vm.value
                            if origin == "imported":
                                od[vm.index].value_raw = None
                        edited += 1
                    elif o.kind == "var" and vm.dt in R.REALS and vm.default_rel is None:
                        # an application sets a REAL object to a whole number and writes it as a Python int
                        vm.default = rng.choice([100, 0, 7, -3])
                        od[vm.index].default = vm.default
                        if origin == "imported":
                            od[vm.index].default_raw = None
                        if dcf:
                            vm.value = rng.choice([250, 1, 0])
                            od[vm.index].value = vm.value
                            if origin == "imported":
                                od[vm.index].value_raw = None
                        edited += 1
                if edited:
                    fp = io.StringIO()
                    canopen.export_od(od, fp, doc_type=doc)
                    fp2 = io.StringIO(fp.getvalue())
                    fp2.name = "again." + doc
                    od3 = canopen.import_od(fp2, node_id)
                    ctx.case((origin, doc, "second-export-after-edit"), nontrivial=True)
                    odcompare.compare(ctx, model, od3, dict(case, destination="second-export-after-edit"), "roundtrip", dcf=dcf, node_known=True,
                                      check_value=dcf, check_relative=False, check_node=dcf, expect_node_id=node_id if dcf else None,
                                      expect_bitrate=model.bitrate if dcf else None)
            except Exception as exc:  # noqa: BLE001
                ctx.violation(f"roundtrip-raised:{type(exc).__name__}:second-export", f"second export after an edit raised {exc!r}", case)
            if len(docs) == 3:
                ctx.count("documents_compared")
                masked = {d: mask_fileinfo(t) for d, t in docs.items()}
                if not (masked["path"] == masked["stream"] == masked["stdout"]):
                    diff = [d for d in ("stream", "stdout") if masked[d] != masked["path"]]
                    ctx.violation("destination-changes-document", f"documents differ between destinations (path vs {diff}) beyond [FileInfo]", case)
            if len(ctx.samples) < 2 and "stream" in docs:
                ctx.sample({"case": case, "objects": len(model.objects), "document_excerpt": docs["stream"][docs["stream"].find("[ManufacturerObjects]"):][:400]})
    finally:
        shutil.rmtree(work, ignore_errors=True)


def replay(ctx, case):
    ctx.case(("replay",))
    ctx.inconc("re-run the shard with the same seed (models are generated per shard)", case)
