"""C07 - a disturbed SDO transfer fails loudly and does not poison the next one.

Fault enumeration: transfer kind x payload length x protocol step (every
response frame of the undisturbed run) x disturbance kind, one disturbance per
transfer, then an undisturbed follow-up upload and download on the same client
and server.  Peers: strict reference server (all six transfer kinds) and the
real SdoServer (expedited / segmented).

Oracles: outcome classification (normal return with exactly the right data, or
SdoCommunicationError / SdoAbortedError; anything else is a violation); a lost
response that makes the call raise must be followed on the wire by a client
abort frame with the time-out code; the follow-up transfers complete correctly.
"""
from __future__ import annotations

import random

from canmon import faults, gen, rigs
from canmon.props.c01 import payload
from canmon.props.c13 import stream_class
from canmon.ref import codec as R

ID = "C07"
LEVEL = "fault_enumeration"
RULE = ("case = (peer, transfer kind, payload length, step k, disturbance); every response frame of the undisturbed run is "
        "disturbed once by each applicable kind: lost, lost+late (delivered after the time-out), replaced by abort (4 codes), "
        "toggle flipped, wrong specifier, wrong multiplexer (initiate responses), duplicated, stale frame of another transfer "
        "delivered before the request (sits in the queue), between request and response, each followed by an undisturbed "
        "upload and download. Stale frames that would be a legal response for the current step are not generated "
        "(indistinguishable by protocol). Signature = (peer, kind, length class, step class, disturbance); all non-trivial.")
RULE += (" " + 'Widened later: lost requests, every loss also with MAX_RETRIES = 2, block uploads from a server without CRC and size announcement, follow-ups as unsized stream / block upload, garbage collection after every disturbed call (no frame after the call ended).')
RULE += (" " + "Widened later: the foreign-multiplexer response is also delivered for a record member, including the answer for sub-index 0 of the same index.")
ASSUMPTIONS = ["time-outs are caused only by injected losses (inline delivery); RESPONSE_TIMEOUT 3 ms",
               "a wrong toggle / multiplexer on a *download* response does not change what the server stored: success with the right store is accepted",
               "inside a block sub-block the client may abort with 0x05040000/3/4"]
REQUIRED = {"cases_judged": 500, "lost_cases": 50, "followups": 500}

TIMEOUT_CODE = 0x05040000
VAL_OBJ = (0x2000 + R.DOMAIN, 0)       # DOMAIN: arbitrary bytes, also in the real server's OD
MEMBER_OBJ = (0x2100, list(R.NAMES).index(R.DOMAIN) + 1)       # the DOMAIN member of the typed record
FU_UP = (0x2000 + R.OCTET_STRING, 0)


def od_factory():
    return gen.typed_od(rpdos=(), tpdos=())


KINDS = {
    "exp_dl": [1, 2, 4], "seg_dl": [0, 3, 5, 7, 8, 14, 15], "seg_dl_nosize": [0, 6, 7, 15], "exp_ul": [1, 3, 4], "seg_ul": [5, 7, 8, 14, 15, 22],
    "blk_dl": [5, 7, 8, 36, 50, 100], "blk_ul": [5, 7, 8, 36, 50, 100],
}
KINDS_T = {
    "seg_dl_nosize": [0, 1, 6, 7, 8, 14, 15, 22],
    "exp_dl": [1, 2, 3, 4], "seg_dl": [0, 1, 4, 5, 6, 7, 8, 13, 14, 15, 21, 22, 50], "exp_ul": [1, 2, 3, 4],
    "seg_ul": [5, 6, 7, 8, 13, 14, 15, 21, 22, 50], "blk_dl": [1, 5, 7, 8, 14, 35, 36, 50, 100, 250], "blk_ul": [1, 5, 7, 8, 14, 35, 36, 50, 100, 250],
}
ABORT_CODES = [0x06020000, 0x05040000, 0x08000000, 0x00000000, 0xFFFFFFFF]


def plan(tier, seed):
    kinds = KINDS if tier == "quick" else KINDS_T
    shards = []
    for peer in ("ref", "real"):
        for kind, lens in kinds.items():
            if peer == "real" and kind.startswith("blk"):
                continue
            for n in lens:
                shards.append({"peer": peer, "kind": kind, "n": n, "cs": seed})
                if kind == "blk_ul" and n in (8, 36, 100):
                    # a server without CRC support that does not announce the size: only the sequence numbers protect the data
                    shards.append({"peer": peer, "kind": kind, "n": n, "cs": seed, "srv": "plain"})
                if tier == "thorough" and kind.startswith("blk"):
                    for blk in (1, 2, 127):
                        shards.append({"peer": peer, "kind": kind, "n": n, "cs": seed, "blk": blk})
    # group into ~32 shards
    groups = [[] for _ in range(32)]
    for i, s in enumerate(shards):
        groups[i % 32].append(s)
    return [{"runs": g} for g in groups if g]


# ----------------------------------------------------------------------------- rig handling
def make_rig(peer, blk=5, srv=None):
    if peer == "ref":
        opts = {"crc_support": False, "block_upload_size_indicated": False} if srv == "plain" else {}
        rig = rigs.ClientRig(node_id=7, od=od_factory(), timeout=0.003, blk_sizes=[blk], **opts)
        rig.peer = "ref"
        rig.server_name = "refserver"
    else:
        rig = rigs.PairRig(od_factory, node_ids=(7,), timeout=0.003)
        rig.peer = "real"
        rig.server_name = "slave"
    rig.blk = blk
    return rig


def server_value(rig, mux):
    if rig.peer == "ref":
        return rig.server.store.get(tuple(mux))
    return rig.local.data_store.get(mux[0], {}).get(mux[1])


def set_server_value(rig, mux, value):
    if rig.peer == "ref":
        rig.server.store[tuple(mux)] = bytes(value)
    else:
        rig.local.data_store.setdefault(mux[0], {})[mux[1]] = bytes(value)


def do_transfer(rig, kind, mux, data):
    """Returns uploaded bytes (uploads) or None (downloads)."""
    sdo = rig.sdo
    if kind in ("exp_dl", "seg_dl"):
        sdo.download(mux[0], mux[1], data, force_segment=(kind == "seg_dl"))
        return None
    if kind == "seg_dl_nosize":
        # size not declared: the transfer ends with an empty "no more data" segment sent by close()
        with sdo.open(mux[0], mux[1], "wb", size=None) as fp:
            fp.write(data)
        return None
    if kind in ("exp_ul", "seg_ul"):
        return sdo.upload(mux[0], mux[1])
    if kind == "blk_dl":
        with sdo.open(mux[0], mux[1], "wb", size=len(data), block_transfer=True) as fp:
            fp.write(data)
        return None
    cls = stream_class()
    old = cls.blksize
    cls.blksize = rig.blk
    try:
        with sdo.open(mux[0], mux[1], "rb", block_transfer=True) as fp:
            return fp.read()
    finally:
        cls.blksize = old


def response_pred(rig):
    return lambda f: f.src == rig.server_name and f.can_id == rig.tx and not f.injected


def step_class(kind, first_byte, k, nresp):
    scs = first_byte >> 5
    if kind == "blk_ul" and 0 < k < nresp - 1 and nresp > 2:
        return "blk-segment"
    if kind == "blk_dl" and first_byte & 0xE3 == 0xA2:
        return "blk-ack"
    if k == 0:
        return "initiate"
    if k == nresp - 1:
        return "last"
    return "segment"


def stale_frames(kind, mux):
    """Frames left over from *other* transfers, none of which is a legal response for any step of ``kind`` on ``mux``."""
    other = (mux[0] ^ 0x0101) & 0xFFFF, (mux[1] + 1) & 0xFF
    import struct
    out = {
        "stale-exp-upload-other-object": struct.pack("<BHB4s", 0x43, other[0], other[1], b"\xde\xad\xbe\xef"),
        "stale-exp-upload-other-sub": struct.pack("<BHB4s", 0x43, mux[0], other[1], b"\xde\xad\xbe\xef"),
        "stale-exp-upload-other-index": struct.pack("<BHB4s", 0x43, other[0], mux[1], b"\xde\xad\xbe\xef"),
        "stale-seg-upload-init-other-object": struct.pack("<BHBL", 0x41, other[0], other[1], 9),
    }
    if kind in ("exp_ul", "seg_ul", "blk_ul"):
        out["stale-download-ack"] = struct.pack("<BHB4x", 0x60, other[0], other[1])
    if kind not in ("seg_ul",):
        out["stale-upload-segment"] = bytes([0x00]) + b"STALE!!"
    if kind in ("exp_dl", "seg_dl", "seg_dl_nosize", "blk_dl"):
        out["stale-block-upload-init"] = struct.pack("<BHBL", 0xC6, other[0], other[1], 3)
    return out


# ----------------------------------------------------------------------------- one case
def run_case(ctx, c):
    from canopen.sdo.exceptions import SdoAbortedError, SdoCommunicationError
    rig = make_rig(c["peer"], c.get("blk", 5), c.get("srv"))
    kind, n, k, dist = c["kind"], c["n"], c["k"], c["dist"]
    mux = list(VAL_OBJ)
    if dist == "mux-sub0" or (dist == "mux-sub" and c["seed"] % 2):
        mux = list(MEMBER_OBJ)          # a record member: the foreign answer may then also be the one for sub-index 0
    data = payload(n, c["seed"])
    upload = kind.endswith("ul")
    if upload:
        set_server_value(rig, mux, data)
    pred = response_pred(rig)
    late = []
    drop_ts = []

    def act(frame):
        if dist in ("lost", "request-lost"):
            drop_ts.append(frame.ts)
            return []
        if dist == "lost-late":
            drop_ts.append(frame.ts)
            late.append(frame)
            return []
        if dist.startswith("abort:"):
            import struct
            code = int(dist.split(":")[1], 16)
            # "abort frame received": the server really ends the transfer at this step (an abort that the
            # server does not know about is not something a conformant server produces)
            if rig.peer == "ref":
                rig.server.state = "idle"
            return [frame.replace(data=struct.pack("<BHBL", 0x80, mux[0], mux[1], code))]
        if dist == "toggle":
            return [frame.replace(data=bytes([frame.data[0] ^ 0x10]) + frame.data[1:])]
        if dist.startswith("specifier:"):
            scs = int(dist.split(":")[1])
            return [frame.replace(data=bytes([(frame.data[0] & 0x1F) | (scs << 5)]) + frame.data[1:])]
        if dist in ("mux-index", "mux-sub", "mux-sub0"):
            # a response that belongs to another object: other multiplexer and, where the frame carries
            # the value itself (expedited upload), that object's different data
            d = bytearray(frame.data)
            d[1 if dist == "mux-index" else 3] ^= 0x01
            if dist == "mux-sub0" or (dist == "mux-sub" and mux[1] and (c["seed"] >> 1) % 3 != 0):
                d[3] = 0
            if d[0] >> 5 == 2 and d[0] & 0x02:
                d[4:8] = bytes(b ^ 0xFF for b in d[4:8])
            return [frame.replace(data=bytes(d))]
        if dist == "duplicated":
            return [frame, frame.replace()]
        if dist.startswith("stale-between:wrong-toggle"):
            expected_toggle = (k - 1) % 2
            b0 = ((1 - expected_toggle) << 4) | (0x01 if "last" in dist else 0x00) | (2 << 1)
            return [frame.replace(data=bytes([b0]) + b"OLD!!\x00\x00"), frame]
        if dist.startswith("stale-between:"):
            st = stale_frames(kind, mux)[dist.split(":", 1)[1]]
            return [frame.replace(data=st), frame]
        if dist.startswith("stale-queued:"):
            # delivered right after response k: it sits in the client's queue when request k+1 is made
            st = stale_frames(kind, mux)[dist.split(":", 1)[1]]
            return [frame, frame.replace(data=st)]
        raise AssertionError(dist)

    genuine_refusal = (dist.startswith("abort:") and rig.peer == "ref" and not upload
                       and (c["stepclass"] == "last" or kind == "exp_dl"))
    if genuine_refusal:
        # the server itself refuses at commit time (nothing is stored), instead of a response swapped on the wire
        code_ = int(dist.split(":")[1], 16)
        rig.server.refuse = lambda what, m, d: code_ if what == "download" else None
        fired = True
    elif dist.startswith("stale-before:"):
        # in the queue before the first request of the transfer
        st = stale_frames(kind, mux)[dist.split(":", 1)[1]]
        rig.bus.inject(rig.tx, st, src=rig.server_name)
        fired = True
    elif dist == "request-lost":
        # the k-th request never reaches the server (every request of these kinds has exactly one response)
        rig.bus.fault = faults.OneShot(lambda f: f.src == "master" and f.can_id == rig.rx and not f.injected, k, act)
    else:
        rig.bus.fault = faults.OneShot(pred, k, act)
    rig.sdo.MAX_RETRIES = c.get("retries", 1)            # documented knob: attempts per request
    exc, got = None, None
    try:
        got = do_transfer(rig, kind, mux, data)
    except Exception as e:  # noqa: BLE001
        exc = e
    if genuine_refusal:
        rig.server.refuse = None
    elif not dist.startswith("stale-before:"):
        fired = rig.bus.fault.fired
    rig.bus.fault = None
    # the call is over: whatever is finalised now (file objects of the transfer, kept alive by the traceback until here)
    # must not put another frame on the bus - the transfer has ended, one way or the other
    ended = len(rig.bus.log)
    if exc is not None:
        exc = exc.with_traceback(None)
    import gc
    gc.collect()
    stray = [f for f in list(rig.bus.log)[ended:] if f.src == "master"]
    if stray:
        ctx.violation(f"client-frame-after-the-call-ended:{kind}", f"after the {kind} call had {'raised ' + repr(exc) if exc is not None else 'returned'} "
                      f"(disturbance {dist} at step {k}) the client still sent {[f.data.hex() for f in stray]} when its file objects were finalised",
                      c, rig.wire(20))
    trace = rig.wire(50)
    if not fired:
        ctx.inconc("fault plan never fired", c)
        rig.close()
        return
    ctx.count("cases_judged")
    sig = (c["peer"], kind, n, c["stepclass"], dist.split(":")[0], c.get("blk", 5), c.get("retries", 1), c.get("srv"))
    # ---- outcome classification
    if exc is None:
        if upload:
            ok = got == data
        else:
            ok = server_value(rig, mux) == data
        if not ok:
            shown = got if upload else server_value(rig, mux)
            ctx.violation(f"success-with-wrong-data:{kind}:{dist.split(':')[0]}",
                          f"{kind} of {n} bytes disturbed by {dist} at step {k} returned normally with "
                          f"{'returned' if upload else 'stored'} {shown!r} instead of {data!r}", c, trace)
        outcome = "ok"
    elif isinstance(exc, (SdoCommunicationError, SdoAbortedError)):
        outcome = type(exc).__name__
    else:
        outcome = type(exc).__name__
        ctx.violation(f"unexpected-exception:{type(exc).__name__}:{kind}:{dist.split(':')[0]}",
                      f"{kind} disturbed by {dist} at step {k} raised {exc!r}", c, trace)
    ctx.seen("outcomes", f"{kind}:{c['stepclass']}:{dist.split(':')[0]}:{outcome}")
    # ---- lost response: abort frame with the time-out code
    if dist in ("lost", "lost-late", "request-lost"):
        ctx.count("lost_cases")
        if exc is None:
            ctx.seen("recovered_by_retry", f"{kind}:{c['stepclass']}:{dist}:retries={c.get('retries', 1)}")
        if exc is not None:
            aborts = [f for f in rig.bus.log if f.src == "master" and f.can_id == rig.rx and f.data[:1] == b"\x80" and f.ts > drop_ts[0]]
            accepted = {TIMEOUT_CODE}
            if c["stepclass"] in ("blk-segment", "blk-ack") or (kind == "blk_ul" and c["stepclass"] == "last"):
                accepted = {TIMEOUT_CODE, 0x05040003, 0x05040004}
            if aborts:
                later = [f for f in rig.bus.log if f.src == "master" and f.can_id == rig.rx and f.ts > aborts[0].ts]
                if later:
                    ctx.violation(f"client-continues-after-its-abort:{kind}",
                                  f"after aborting the timed-out transfer the client still sent {[f.data.hex() for f in later]}", c, trace)
            if not aborts and isinstance(exc, SdoAbortedError) and c.get("retries", 1) > 1:
                pass        # the repeated request was refused by the server: the server has ended the transfer itself
            elif not aborts:
                ctx.violation(f"no-abort-after-lost-response:{kind}:{c['stepclass']}",
                              f"{kind}: response {k} ({c['stepclass']}) lost, call raised {exc!r}, but the client sent no abort frame", c, trace)
            else:
                import struct
                code = struct.unpack_from("<L", aborts[0].data, 4)[0]
                if code not in accepted and c.get("retries", 1) == 1:
                    # (with a second attempt the abort answers whatever that attempt met, not the loss itself)
                    ctx.violation(f"wrong-abort-code-after-lost-response:{kind}:{c['stepclass']}",
                                  f"client abort code {code:#010x} after a lost response, expected {sorted(hex(a) for a in accepted)}", c, trace)
    # ---- late delivery of the lost response (after the call gave up)
    for f in late:
        rig.bus.inject(rig.tx, f.data, src=rig.server_name)
    # ---- follow-up transfers on the same client and server
    fu_val = payload(11, c["seed"] + 1)
    set_server_value(rig, FU_UP, fu_val)
    fu_data = payload(9, c["seed"] + 2)
    mark = len(rig.bus.log)
    poll_val = payload(n if n else 3, c["seed"] + 3)
    def fu_download():
        if c["seed"] % 3 == 0:
            # the follow-up arrives as a stream of undeclared size (and another length than anything announced before)
            with rig.sdo.open(VAL_OBJ[0], VAL_OBJ[1], "wb", size=None) as fp:
                fp.write(fu_data)
        else:
            rig.sdo.download(VAL_OBJ[0], VAL_OBJ[1], fu_data)
    steps = [("upload", lambda: rig.sdo.upload(*FU_UP)),
             ("download", fu_download)]
    if kind.startswith("blk") and rig.peer == "ref":
        # ... and a block upload on the same client (checksum state, sequence counters left behind by the disturbed one)
        steps.append(("block-upload", lambda: do_transfer(rig, "blk_ul", list(FU_UP), None)))
    if c["seed"] % 2:
        steps.reverse()                      # an upload in between can hide state left behind in the server
    if upload:
        # poll the same object again after the server's value changed: a stale answer would go unnoticed otherwise
        set_server_value(rig, mux, poll_val)
        steps.insert(0, ("poll-same-object", lambda: rig.sdo.upload(mux[0], mux[1])))
    for name, fn in steps:
        ctx.count("followups")
        try:
            res = fn()
            if name == "poll-same-object" and res != poll_val:
                ctx.violation(f"followup-stale-data:{kind}:{dist.split(':')[0]}",
                              f"polling the same object after ({kind}, {dist}@{k}, outcome {outcome}) returned {res!r}, the server now holds {poll_val!r}",
                              c, [x.brief() for x in list(rig.bus.log)[max(0, mark - 12):][:50]])
            if name == "block-upload" and res != fu_val:
                ctx.violation(f"followup-wrong-data:{name}:{kind}:{dist.split(':')[0]}",
                              f"follow-up block upload after ({kind}, {dist}@{k}, outcome {outcome}) returned {res!r} expected {fu_val!r}",
                              c, [x.brief() for x in list(rig.bus.log)[max(0, mark - 12):][:50]])
            if name == "upload" and res != fu_val:
                ctx.violation(f"followup-wrong-data:{name}:{kind}:{dist.split(':')[0]}",
                              f"follow-up upload after ({kind}, {dist}@{k}, outcome {outcome}) returned {res!r} expected {fu_val!r}",
                              c, [x.brief() for x in list(rig.bus.log)[max(0, mark - 12):][:50]])
            if name == "download" and server_value(rig, VAL_OBJ) != fu_data:
                ctx.violation(f"followup-wrong-data:{name}:{kind}:{dist.split(':')[0]}",
                              f"follow-up download stored {server_value(rig, VAL_OBJ)!r} expected {fu_data!r}", c,
                              [x.brief() for x in list(rig.bus.log)[max(0, mark - 12):][:50]])
        except Exception as e:  # noqa: BLE001
            ctx.violation(f"followup-failed:{name}:{kind}:{c['stepclass']}:{dist.split(':')[0]}",
                          f"follow-up {name} after ({kind} of {n} bytes, {dist} at step {k} [{c['stepclass']}], outcome {outcome}) raised {e!r}",
                          c, [x.brief() for x in list(rig.bus.log)[max(0, mark - 14):][:50]])
    ctx.case(sig)
    if len(ctx.samples) < 4 and dist in ("lost", "toggle", "stale-between:stale-exp-upload-other-object"):
        ctx.sample({"case": c, "outcome": outcome, "wire": trace[-14:]})
    rig.close()


def enumerate_cases(desc_run, cs):
    """Undisturbed run first: which responses exist; then every step x disturbance."""
    peer, kind, n = desc_run["peer"], desc_run["kind"], desc_run["n"]
    blk = desc_run.get("blk", 5)
    rig = make_rig(peer, blk, desc_run.get("srv"))
    mux = list(VAL_OBJ)
    data = payload(n, 12345)
    if kind.endswith("ul"):
        set_server_value(rig, mux, data)
    do_transfer(rig, kind, mux, data)
    resp = [f for f in rig.bus.log if f.src == rig.server_name and f.can_id == rig.tx]
    rig.close()
    nresp = len(resp)
    rng = random.Random(repr(("c07", cs, peer, kind, n)))
    out = []
    for k, f in enumerate(resp):
        b0 = f.data[0]
        sc = step_class(kind, b0, k, nresp)
        dists = ["lost", "lost-late", "duplicated"]
        dists += ["abort:%08x" % code for code in ABORT_CODES[:3]] + ["abort:%08x" % rng.getrandbits(32)]
        scs = b0 >> 5
        if sc != "blk-segment":
            for other in rng.sample([x for x in range(8) if x not in (scs, 4)], 3):
                dists.append(f"specifier:{other}")
        if scs in (0, 1) and sc != "blk-segment" and kind in ("seg_dl", "seg_dl_nosize", "seg_ul", "exp_ul") and k > 0:
            dists.append("toggle")
        if k == 0:
            dists += ["mux-index", "mux-sub", "mux-sub0"]      # (mux-sub0: a record member is asked for, the answer names sub-index 0)
        if kind == "seg_ul" and k >= 1:
            # a late segment of an earlier upload: wrong toggle for this step, so the protocol can tell it apart
            dists += ["stale-between:wrong-toggle-last-segment", "stale-between:wrong-toggle-segment"]
        for name in stale_frames(kind, mux):
            dists.append("stale-between:" + name)
            if k < nresp - 1:
                dists.append("stale-queued:" + name)
            if k == 0:
                dists.append("stale-before:" + name)
        if not kind.startswith("blk"):
            dists.append("request-lost")
        if desc_run.get("srv") == "plain" and sc == "blk-segment" and b0 & 0x7F == blk and not b0 & 0x80:
            # a second copy of the segment that closes a sub-block arrives where segment 1 of the next sub-block is due: it is
            # a legal-looking (merely out-of-order) frame for that step, and without CRC and size nothing tells the
            # copy from a real loss of the segments before it - indistinguishable, not generated for this server style
            dists.remove("duplicated")
        for d in dists:
            out.append({"peer": peer, "kind": kind, "n": n, "k": k, "dist": d, "stepclass": sc, "seed": rng.randint(0, 1 << 30), "blk": blk,
                        "srv": desc_run.get("srv")})
            if d in ("lost", "lost-late", "request-lost"):
                # the same loss with a second attempt allowed (SdoClient.MAX_RETRIES = 2)
                out.append(dict(out[-1], retries=2, seed=rng.randint(0, 1 << 30)))
    return out


def run(ctx, desc):
    for r in desc["runs"]:
        for c in enumerate_cases(r, r["cs"]):
            run_case(ctx, c)


def replay(ctx, case):
    run_case(ctx, case)
