"""C09 - saving a PDO configuration follows the safe procedure and reads back identically.

RemoteNode <-> reference PDO device (ref.pdo_device: strict CiA 301 write rules,
write log).  Oracles: ordering predicates on the device's write log; no write
refused; read-back into a fresh RemoteNode on another station equals the
configuration; Network.subscribers has the COB-ID iff the map is enabled.
"""
from __future__ import annotations

import random

from canmon import gen, rigs, simbus
from canmon.ref import codec as R
from canmon.ref.pdo_device import PdoDevice
from canmon.ref.sdo_server import ServerActor

ID = "C09"
LEVEL = "exploration"
RULE = ("case = (RPDO/TPDO, PDO number in {1..4, 5, 64, 511, 512}, COB-ID over 11-bit and 29-bit range, enabled, RTR flag, "
        "transmission type 0..255, optional sub-entries 3/5/6 present or absent and set or unset, 0..8 mapped objects, source "
        "of the configuration: programmatic / read from the live device / read from the dictionary (ParameterValue then "
        "DefaultValue)); the device starts enabled with a different mapping and refuses out-of-order writes. Signature = "
        "(kind, number class, cob class, enabled, rtr, trans class, n mapped, optional subs, source); non-trivial = at least "
        "one mapped object or enabled.")
RULE += (" " + 'Widened later: a second configuration saved through the same map object, devices lacking a described optional sub-entry (four abort codes), the unused-PDO entry 0x80000000, ARRAY-declared mapping parameters, saves after a transiently refused save.')
ASSUMPTIONS = ["devices with a permanently read-only mapping count (the library's _fill_map workaround) are outside the property; a transient refusal before the judged save is part of 'every prior state of the device'",
               "bit 29 (frame format) written by the library is not judged; a device or dictionary reporting it must still read back as the same 29-bit COB-ID", "optional timers are compared for transmission types 254/255 only"]
REQUIRED = {"saves_checked": 200, "readbacks_compared": 200, "device_writes_logged": 1000}
NODE = 9
PDO_NOT_VALID, RTR_NOT_ALLOWED = 1 << 31, 1 << 30
MAPPABLE = {(gen.TYPE_INDEX_BASE + dt, 0): R.width(dt) for dt in list(R.NUMERIC) + [R.BOOLEAN]}
BLOB_OBJECTS = [(gen.TYPE_INDEX_BASE + R.OCTET_STRING, 0), (gen.TYPE_INDEX_BASE + R.VISIBLE_STRING, 0)]   # mapped with a length of their own


def plan(tier, seed):
    n = 8
    return [{"cases": 250 if tier == "quick" else 12000, "cs": seed * 100 + i} for i in range(n)]


def random_mapping(rng, n=None):
    n = rng.randint(0, 8) if n is None else n
    out, total = [], 0
    for _ in range(n):
        dt = rng.choice(list(R.NUMERIC))
        w = R.width(dt)
        if total + w > 64:
            dt = rng.choice([R.UNSIGNED8, R.INTEGER8])
            w = 8
            if total + w > 64:
                break
        out.append((gen.TYPE_INDEX_BASE + dt, 0, w))
        total += w
    if out and rng.random() < 0.15:
        # one object of a string type, mapped with 16 .. 48 bits (e.g. a short identifier carried in a PDO)
        w = rng.choice([16, 24, 48])
        if total - out[-1][2] + w <= 64:
            total += w - out[-1][2]
            idx, sub = rng.choice(BLOB_OBJECTS)
            out[-1] = (idx, sub, w)
    return out


def gen_case(rng):
    kind = rng.choice(["rpdo", "tpdo"])
    number = rng.choice([1, 2, 3, 4, 5, 64, 256, 257, 300, 511, 512])
    cob = rng.choice([rng.randint(1, 0x7FF), rng.randint(0x181, 0x57F), rng.randint(0x800, 0x1FFFFFFF), 0x7FF, 0x1FFFFFFF, 1])
    trans = rng.choice([0, 1, 240, 241, 252, 253, 254, 255, rng.randint(0, 255)])
    subs = [1, 2] + [s for s in (3, 5, 6) if rng.random() < 0.6]
    c = {"kind": kind, "number": number, "cob": cob, "enabled": rng.random() < 0.6, "rtr": rng.random() < 0.5, "trans": trans,
         "subs": subs, "mapping": random_mapping(rng), "source": rng.choice(["programmatic", "programmatic", "device", "od", "load_configuration"]),
         "inhibit": rng.choice([None, 0, 100, 65535]) if 3 in subs else None,
         "event": rng.choice([None, 0, 500, 65535]) if 5 in subs else None,
         "sync_start": rng.choice([None, 0, 7, 240]) if 6 in subs else None,
         "old_mapping": random_mapping(rng, rng.randint(1, 4)), "old_cob": rng.randint(1, 0x7FF), "seed": rng.randint(0, 1 << 30),
         "map_as_array": rng.random() < 0.3,           # some EDS files declare the mapping parameter as ARRAY (object type 8)
         "failed_first_save": rng.random() < 0.2,      # the device refused re-mapping once (transient state) before the judged save
         "frame_bit": rng.random() < 0.5}              # a compliant device reports bit 29 ("frame") for 29-bit COB-IDs
    if not c["enabled"] and rng.random() < 0.2:
        c["cob"] = 0          # the customary "unused PDO" entry 0x80000000: invalid, CAN-ID 0 - a configuration like any other
    if c["source"] == "device" and len(subs) > 2 and rng.random() < 0.5:
        # the dictionary describes an optional sub-entry that this device does not implement; it says so with one of the
        # abort codes devices use for that
        c["device_lacks"] = rng.sample(subs[2:], rng.randint(1, len(subs) - 2))
        c["missing_code"] = rng.choice([0x06090011, 0x06020000, 0x060A0023, 0x08000000])
        for s_, key in ((3, "inhibit"), (5, "event"), (6, "sync_start")):
            if s_ in c["device_lacks"]:
                c[key] = None
    if rng.random() < 0.4 and c["source"] != "load_configuration":
        # the same map object is re-configured and saved again: the prior state of the device is what the library itself left
        c["second"] = {"cob": rng.choice([cob, rng.randint(1, 0x7FF), rng.randint(0x800, 0x1FFFFFFF)]), "enabled": rng.random() < 0.6,
                       "rtr": rng.random() < 0.5, "trans": rng.choice([trans, 0, 1, 254, 255, rng.randint(0, 255)]),
                       "mapping": random_mapping(rng), "inhibit": rng.choice([None, 0, 100, 65535]) if 3 in subs else None,
                       "event": rng.choice([None, 0, 500, 65535]) if 5 in subs else None,
                       "sync_start": rng.choice([None, 0, 7, 240]) if 6 in subs else None}
    for s_, key in ((3, "inhibit"), (5, "event"), (6, "sync_start")):
        if s_ in c.get("device_lacks", []) and "second" in c:
            c["second"][key] = None          # nobody configures a timer the device does not have
    return c


def build_od(c, with_values=False):
    d = gen.typed_od(rpdos=(), tpdos=())
    defaults = {}
    com = (0x1400 if c["kind"] == "rpdo" else 0x1800) + c["number"] - 1
    mp = (0x1600 if c["kind"] == "rpdo" else 0x1A00) + c["number"] - 1
    gen.add_pdo_objects(d, c["kind"], c["number"], subs=tuple(c["subs"]), map_as_array=c.get("map_as_array", False))
    if with_values:
        # configuration described by the dictionary: some entries as DefaultValue, some as ParameterValue
        rng = random.Random(c["seed"])
        word = c["cob"] | (0 if c["enabled"] else PDO_NOT_VALID) | (0 if c["rtr"] else RTR_NOT_ALLOWED)
        if c["cob"] > 0x7FF and c.get("frame_bit"):
            word |= 1 << 29
        vals = {(com, 1): word, (com, 2): c["trans"], (mp, 0): len(c["mapping"])}
        for s, key in ((3, "inhibit"), (5, "event"), (6, "sync_start")):
            if s in c["subs"]:
                vals[(com, s)] = c[key] if c[key] is not None else 0
        for i, (idx, sub, ln) in enumerate(c["mapping"], start=1):
            vals[(mp, i)] = idx << 16 | sub << 8 | ln
        for i in range(len(c["mapping"]) + 1, 9):
            vals[(mp, i)] = 0
        for (idx, sub), v in vals.items():
            var = d[idx][sub]
            if rng.random() < 0.5:
                var.default = v
            else:
                var.default = rng.choice([0, v ^ 1, None])      # the ParameterValue wins over a different default
                var.value = v
    return d, com, mp


def readback(ctx, c, netx, trace):
    """Read the saved configuration into a fresh node object on another station and compare."""
    import canopen
    # ---- read back into a fresh node object on another station
    try:
        od2, _, _ = build_od(c)
        node2 = canopen.RemoteNode(NODE, od2)
        netx.add_node(node2)
        node2.sdo.RESPONSE_TIMEOUT = 0.05
        p2 = (node2.rpdo if c["kind"] == "rpdo" else node2.tpdo)[c["number"]]
        p2.read()
    except Exception as exc:  # noqa: BLE001
        ctx.violation(f"readback-raised:{type(exc).__name__}", f"reading the saved configuration back raised {exc!r}", c, trace())
        return
    ctx.count("readbacks_compared")
    got = {"cob": p2.cob_id, "enabled": p2.enabled, "rtr": p2.rtr_allowed, "trans": p2.trans_type,
           "mapping": [(v.index, v.subindex, v.length) for v in p2.map]}
    want = {"cob": c["cob"], "enabled": c["enabled"], "rtr": c["rtr"], "trans": c["trans"], "mapping": [tuple(m) for m in c["mapping"]]}
    for k in want:
        if got[k] != want[k]:
            ctx.violation(f"readback-mismatch:{k}", f"read-back {k} = {got[k]!r}, configured {want[k]!r}", c, trace())
    if c["trans"] >= 254:
        for attr, key, s in (("inhibit_time", "inhibit", 3), ("event_timer", "event", 5), ("sync_start_value", "sync_start", 6)):
            if s in c["subs"] and c[key] is not None and getattr(p2, attr) != c[key]:
                ctx.violation(f"readback-mismatch:{key}", f"read-back {attr} = {getattr(p2, attr)!r}, configured {c[key]!r}", c, trace())
    sub2 = any(cb == p2.on_message for cb in netx.subscribers.get(c["cob"], []))
    if sub2 != c["enabled"]:
        ctx.violation("subscription-after-read", f"fresh node: map enabled={c['enabled']} but subscribed to its COB-ID {c['cob']:#x}: {sub2} "
                      f"(subscriber ids {sorted(hex(k) for k in netx.subscribers)})", c)
    if len(p2.data) != (sum(m[2] for m in c["mapping"]) + 7) // 8:
        ctx.violation("readback-data-size", f"data buffer of {len(p2.data)} bytes for {sum(m[2] for m in c['mapping'])} mapped bits", c)


def run_case(ctx, c):
    import canopen
    bus = simbus.SimBus(mode="inline")
    net, st = simbus.make_network(bus, "master")
    net2, st2 = simbus.make_network(bus, "second")
    od, com, mp = build_od(c, with_values=c["source"] in ("od", "load_configuration"))
    node = canopen.RemoteNode(NODE, od)
    net.add_node(node)
    node.sdo.RESPONSE_TIMEOUT = 0.05
    dev = PdoDevice({**MAPPABLE, **{k: 64 for k in BLOB_OBJECTS}})
    # the device starts enabled with a different mapping (for source 'device' it holds the configuration itself)
    if c["source"] == "device":
        word = c["cob"] | (0 if c["enabled"] else PDO_NOT_VALID) | (0 if c["rtr"] else RTR_NOT_ALLOWED)
        if c["cob"] > 0x7FF and c.get("frame_bit"):
            word |= 1 << 29
        dev_subs = [x for x in c["subs"] if x not in c.get("device_lacks", [])]
        dev.missing_code = c.get("missing_code", 0x06090011)
        dev.add_pdo(com, mp, word, c["trans"], tuple(dev_subs), c["mapping"], c["inhibit"] or 0, c["event"] or 0, c["sync_start"] or 0)
    else:
        dev.add_pdo(com, mp, c["old_cob"], 255, tuple(c["subs"]), c["old_mapping"], 1, 2, 3)
    bus.actor_station("refserver", ServerActor(dev, 0x600 + NODE, 0x580 + NODE))
    try:
        pmap = (node.rpdo if c["kind"] == "rpdo" else node.tpdo)[c["number"]]
    except KeyError as exc:
        ctx.case(("map-missing", c["kind"]), nontrivial=True)
        ctx.violation("pdo-map-missing", f"the dictionary describes {c['kind']} {c['number']} but node.{c['kind']}[{c['number']}] raises {exc!r}", c)
        bus.close()
        return
    sig = (c["kind"], "pcs" if c["number"] <= 4 else "high", "ext" if c["cob"] > 0x7FF else "std", c["enabled"], c["rtr"],
           "event" if c["trans"] >= 254 else "sync" if c["trans"] <= 240 else "rtr/reserved", len(c["mapping"]), tuple(c["subs"][2:]), c["source"],
           c.get("map_as_array"), c.get("failed_first_save"))
    ctx.case(sig, nontrivial=bool(c["mapping"]) or c["enabled"])
    trace = lambda: [f.brief() for f in list(bus.log)[-60:]]  # noqa: E731
    try:
        if c["source"] == "programmatic":
            pmap.clear()
            for idx, sub, ln in c["mapping"]:
                # (objects mapped with their whole length are added the usual way: without naming the length)
                pmap.add_variable(idx, sub, None if ln == MAPPABLE.get((idx, sub)) and (idx + ln) % 2 else ln)
            pmap.cob_id, pmap.enabled, pmap.rtr_allowed, pmap.trans_type = c["cob"], c["enabled"], c["rtr"], c["trans"]
            pmap.inhibit_time, pmap.event_timer, pmap.sync_start_value = c["inhibit"], c["event"], c["sync_start"]
        elif c["source"] == "device":
            pmap.read()
        elif c["source"] == "od":
            pmap.read(from_od=True)
        if c.get("failed_first_save") and c["source"] in ("programmatic", "od") and dev.count(mp) <= len(pmap.map):
            # (with more objects mapped in the device than in the new mapping the library's fixed-length workaround pads
            # the map object itself with dummy entries: that is the workaround's documented effect, outside the property)
            # an earlier attempt on the same map object while the device refused re-mapping; not judged, then the device is as before
            snap = dict(dev.store)
            dev.locked = True
            try:
                pmap.save()
            except Exception:  # noqa: BLE001
                pass
            dev.locked = False
            ctx.count("save_after_refused_save")
            dev.store.clear()
            dev.store.update(snap)
        nlog = len(dev.write_log)
        if c["source"] == "load_configuration":
            # the documented way to apply a DCF: PDO objects go through read(from_od=True) + save(), nothing else may touch them
            node.load_configuration()
        else:
            pmap.save()
    except Exception as exc:  # noqa: BLE001
        ctx.violation(f"save-raised:{type(exc).__name__}:{c['source']}", f"configuring/saving raised {type(exc).__name__}: {exc}; device log {dev.write_log[-6:]}", c, trace())
        bus.close()
        return
    ctx.count("saves_checked")
    log = dev.write_log[nlog:]
    ctx.count("device_writes_logged", len(log))
    check_log(ctx, c, log, com, mp, trace)
    # the live node object is subscribed iff enabled
    subscribed = any(cb == pmap.on_message for cb in net.subscribers.get(c["cob"], []))
    if subscribed != c["enabled"] and c["source"] != "device":
        ctx.violation("subscription-after-save", f"map enabled={c['enabled']} but subscribed to {c['cob']:#x}: {subscribed}", c)
    readback(ctx, c, net2, trace)
    second = c.get("second")
    if second:
        c2 = dict(c, **second)
        c2["source"], c2["round"] = "programmatic", 2
        c2.pop("second")
        ctx.case(("second-save", c["kind"], c["source"], len(c["mapping"]), len(c2["mapping"]), c["enabled"], c2["enabled"], c["cob"] == c2["cob"]), nontrivial=True)
        try:
            pmap.clear()
            for idx, sub, ln in c2["mapping"]:
                pmap.add_variable(idx, sub, ln)
            pmap.cob_id, pmap.enabled, pmap.rtr_allowed, pmap.trans_type = c2["cob"], c2["enabled"], c2["rtr"], c2["trans"]
            pmap.inhibit_time, pmap.event_timer, pmap.sync_start_value = c2["inhibit"], c2["event"], c2["sync_start"]
            nlog = len(dev.write_log)
            pmap.save()
        except Exception as exc:  # noqa: BLE001
            ctx.violation(f"save-raised:{type(exc).__name__}:second-save", f"second save on the same map raised {type(exc).__name__}: {exc}; device log {dev.write_log[-6:]}", c2, trace())
            bus.close()
            return
        ctx.count("saves_checked")
        log2 = dev.write_log[nlog:]
        ctx.count("device_writes_logged", len(log2))
        check_log(ctx, c2, log2, com, mp, trace)
        # (a left-over subscription to the first COB-ID is harmless: on_message ignores frames of other ids; not judged)
        subscribed2 = any(cb == pmap.on_message for cb in net.subscribers.get(c2["cob"], []))
        # (nor is a map that was enabled before and is saved disabled now required to drop its subscription: the property
        # speaks about the fresh node object; only "enabled implies subscribed" is demanded of the live one)
        if c2["enabled"] and not subscribed2:
            ctx.violation("subscription-after-save", f"second save: map enabled but not subscribed to {c2['cob']:#x}", c2)
        net3, _ = simbus.make_network(bus, "third")
        readback(ctx, c2, net3, trace)
    if len(ctx.samples) < 4:
        ctx.sample({"case": c, "device_write_log": [(hex(i), s, hex(v) if v is not None else None, ok) for i, s, v, ok, _ in log]})
    bus.close()


def check_log(ctx, c, log, com, mp, trace):
    n = len(c["mapping"])
    refused = [(hex(i), s, v, hex(code)) for i, s, v, ok, code in log if not ok]
    if refused:
        ctx.violation("device-refused-write", f"the strict device refused {refused[:3]} (write order {[(hex(i), s) for i, s, *_ in log]})", c, trace())
    if not log:
        ctx.violation("nothing-written", "save() wrote nothing", c)
        return
    base = c["cob"] | (0 if c["rtr"] else RTR_NOT_ALLOWED)
    first = log[0]
    if (first[0], first[1]) != (com, 1) or first[2] != base | PDO_NOT_VALID:
        ctx.violation("first-write-not-invalidate", f"first write is {first[0]:#x}:{first[1]} = {first[2]:#x}, expected {com:#x}:1 = {base | PDO_NOT_VALID:#x}", c)
    pos = {(i, s): k for k, (i, s, *_rest) in enumerate(log)}
    entry_pos = [k for k, (i, s, *_r) in enumerate(log) if i == mp and s >= 1]
    count_writes = [(k, v) for k, (i, s, v, *_r) in enumerate(log) if i == mp and s == 0]
    if entry_pos:
        zero_before = [k for k, v in count_writes if v == 0 and k < entry_pos[0]]
        if not zero_before:
            ctx.violation("count-not-zeroed-before-entries", f"mapping entries written at {entry_pos} but the count was not zeroed before ({count_writes})", c)
    if not count_writes or count_writes[-1][1] != n or (entry_pos and count_writes[-1][0] < entry_pos[-1]):
        ctx.violation("count-not-set-after-entries", f"count writes {count_writes}, entries at {entry_pos}, expected final count {n} after the entries", c)
    for j, (idx, sub, ln) in enumerate(c["mapping"], start=1):
        w = [v for (i, s, v, *_r) in log if i == mp and s == j]
        if not w or w[-1] != (idx << 16 | sub << 8 | ln):
            ctx.violation("mapping-entry-encoding", f"entry {j} written as {[hex(x) for x in w]}, expected {idx << 16 | sub << 8 | ln:#x}", c)
    cob_writes = [(k, v) for k, (i, s, v, *_r) in enumerate(log) if (i, s) == (com, 1)]
    validating = [(k, v) for k, v in cob_writes if not v & PDO_NOT_VALID]
    if c["enabled"]:
        if len(validating) != 1 or validating[0][0] != len(log) - 1 or validating[0][1] != base:
            ctx.violation("validate-not-last", f"COB-ID writes {[(k, hex(v)) for k, v in cob_writes]} in a log of {len(log)} writes, expected exactly one validating write {base:#x} at the end", c)
    elif validating:
        ctx.violation("disabled-map-validated", f"a disabled map was validated on the device: {[(k, hex(v)) for k, v in validating]}", c)
    tt = [v for (i, s, v, *_r) in log if (i, s) == (com, 2)]
    if tt != [c["trans"]]:
        ctx.violation("transmission-type-write", f"transmission type written as {tt}, expected [{c['trans']}]", c)
    for s, key in ((3, "inhibit"), (5, "event"), (6, "sync_start")):
        w = [v for (i, ss, v, *_r) in log if (i, ss) == (com, s)]
        if c[key] is not None and c["source"] == "programmatic" and w != [c[key]]:
            ctx.violation(f"optional-entry-write:{key}", f"{key} written as {w}, expected [{c[key]}]", c)


def run(ctx, desc):
    rigs.LogCapture()
    from canmon import oracles
    oracles.install_pdo_structure(ctx, prefix="ambient_pdo_structure")
    rng = random.Random(repr(("c09", desc["cs"])))
    for _ in range(desc["cases"]):
        run_case(ctx, gen_case(rng))


def replay(ctx, case):
    rigs.LogCapture()
    case["mapping"] = [tuple(m) for m in case["mapping"]]
    case["old_mapping"] = [tuple(m) for m in case["old_mapping"]]
    run_case(ctx, case)
