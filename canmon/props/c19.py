"""C19 - CiA 402 state decoding and commanded transitions follow the drive state machine.

Decode: all 65536 statuswords against an own transcription of the CiA 402 table.
Transitions: BaseNode402 <-> ref.drive402 over SDO, over PDO (event driven,
inline; ticked TPDO from a thread in thorough), all (state, target) pairs x
automatic-transition delays x extra status bits.  Modes: every mode name x
supported-mode masks.
"""
from __future__ import annotations

import random
import struct
import threading
import time

from canmon import gen, rigs, simbus
from canmon.ref import codec as R
from canmon.ref import drive402 as D
from canmon.ref.sdo_server import RefSdoServer

ID = "C19"
LEVEL = "exploration"
RULE = ("(1) decode: every 16-bit statusword (exhaustive); (2) transitions: all 8 x 8 (drive state, target) pairs x automatic "
        "transition delays {0, 1, 2, 3, 4, 6} status reads (quick; up to 12 in thorough) x extra status bit patterns x transports (SDO, PDO event-driven, PDO with "
        "ticked TPDO), judged on the drive model's controlword log and state trace (bounded restatement: target reached "
        "within 12 controlword writes); (3) modes: every mode name x supported-mode masks (64 in quick, all 1024 in "
        "thorough) over SDO and RPDO. Signature = (workload, start, target, delay, transport) / (mode, supported?); all "
        "transition cases with start != target are non-trivial.")
RULE += (" " + 'Widened later: histories on one node object and one drive (spontaneous faults, persisting fault causes, power cycles), quick stop that ends by itself, PDO event timers, frames stamped 0.0, signalled reception under an exit gate, non-termination guard judged on logical evidence; automatic-transition delays {0,1,2,3,4,6} in quick and up to 12 in thorough.')
RULE += (" " + "Widened later: the full 16-bit statusword sweep is repeated with the statusword arriving in TPDO frames, in shuffled order; transport 'pdo-upload': the library reads the drive's PDO configuration over SDO, PDO 1 keeps the factory mapping but is switched off and PDO 2 carries controlword and statusword.")
ASSUMPTIONS = ["'in finitely many steps' is judged as <= 12 controlword writes", "library time-outs are raised so that progress is logical",
               "a RuntimeError time-out under threaded PDO transport is inconclusive unless the drive log shows it reached and reported the target"]
REQUIRED = {"statuswords_decoded": 65536, "transition_cases": 150, "mode_cases": 100}
EXHAUSTIVE = ["state decoding of all 65536 statuswords", "all 8 x 8 (state, target) pairs"]
NODE = 11
COMMANDABLE = (D.SOD, D.RTSO, D.SO, D.OE, D.QSA)


def plan(tier, seed):
    shards = [{"kind": "decode", "part": i, "parts": 4} for i in range(4)]
    shards += [{"kind": "decode-pdo", "part": i, "parts": 4} for i in range(4)]
    transports = (["sdo", "pdo", "sdo-disabled-tpdo", "pdo", "pdo-ticked", "pdo-upload"] if tier == "quick"
                  else ["sdo", "pdo", "sdo-disabled-tpdo"] * 4 + ["pdo-ticked"] * 3 + ["pdo-upload"] * 2)
    shards += [{"kind": "transitions", "transport": t, "delays": [0, 1, 2, 3, 4, 6] if tier == "quick" else [0, 1, 2, 3, 4, 5, 6, 8, 12],
                "extras": 3 if tier == "quick" else 12, "cs": seed * 10 + i} for i, t in enumerate(transports)]
    shards += [{"kind": "histories", "transport": t, "count": 12 if tier == "quick" else 300, "length": 14 if tier == "quick" else 30,
                "cs": seed * 10 + i} for i, t in enumerate(["sdo", "pdo"] if tier == "quick" else ["sdo", "pdo", "sdo", "pdo"])]
    shards += [{"kind": "modes", "masks": 64 if tier == "quick" else 1024, "transport": t, "cs": seed} for t in ("sdo", "pdo")]
    return shards


def od402(pdos=(1,)):
    d = gen.typed_od(rpdos=pdos, tpdos=pdos)
    d.add_object(gen.variable("Controlword", 0x6040, 0, R.UNSIGNED16))
    d.add_object(gen.variable("Statusword", 0x6041, 0, R.UNSIGNED16, access="ro"))
    d.add_object(gen.variable("Modes of operation", 0x6060, 0, R.INTEGER8))
    d.add_object(gen.variable("Modes of operation display", 0x6061, 0, R.INTEGER8, access="ro"))
    d.add_object(gen.variable("Supported drive modes", 0x6502, 0, R.UNSIGNED32, access="ro"))
    return d


def run_decode(ctx, desc):
    from canopen.profiles.p402 import BaseNode402
    node = BaseNode402(NODE, od402())
    for sw in range(0x10000):
        if sw % desc["parts"] != desc["part"]:
            continue
        node.tpdo_values[0x6041] = sw
        got = node.state
        want = D.decode_statusword(sw)
        ctx.count("statuswords_decoded")
        ctx.case(("decode", want, sw & 0x6F), nontrivial=True)
        if got != want:
            ctx.violation(f"decode-mismatch:{want}", f"statusword {sw:#06x} reported as {got!r}, CiA 402 says {want!r}", {"statusword": sw})
    ctx.sample({"workload": "decode", "0x0627": D.decode_statusword(0x0627), "0x0250": D.decode_statusword(0x0250)})


def run_decode_pdo(ctx, desc):
    """The same sweep with the statusword arriving in a TPDO frame (shuffled order: what was received before must not
    matter), every pattern, also those a conformant drive never sends."""
    from canopen.profiles.p402 import BaseNode402
    bus = simbus.SimBus(mode="inline")
    net, st = simbus.make_network(bus, "master")
    node = BaseNode402(NODE, od402())
    net.add_node(node)
    m = node.tpdo[1]
    m.clear()
    m.add_variable(0x6041)
    m.add_variable(0x6061)
    m.cob_id, m.enabled, m.trans_type = 0x180 + NODE, True, 255
    node.setup_402_state_machine(read_pdos=False)
    drive = bus.actor_station("drive")
    words = [sw for sw in range(0x10000) if sw % desc["parts"] == desc["part"]]
    random.Random(repr(("c19pdo", desc["part"]))).shuffle(words)
    for sw in words:
        drive.send(0x180 + NODE, struct.pack("<Hb", sw, 0))
        got = node.state
        want = D.decode_statusword(sw)
        ctx.count("statuswords_decoded_from_pdo")
        ctx.case(("decode-pdo", want, sw & 0x6F), nontrivial=True)
        if node.statusword != sw:
            ctx.violation("statusword-not-the-received-one", f"TPDO carried {sw:#06x}, node.statusword is {node.statusword:#06x}", {"statusword": sw, "via": "pdo"})
        elif got != want:
            ctx.violation(f"decode-mismatch:{want}:pdo", f"statusword {sw:#06x} received by PDO reported as {got!r}, CiA 402 says {want!r}", {"statusword": sw, "via": "pdo"})
    bus.close()


class DriveRig:
    """BaseNode402 on a master network <-> reference drive reachable by SDO and PDO."""

    def __init__(self, transport, drive, ticked=False, event_timer=None, zero_ts=False):
        from canopen.profiles.p402 import BaseNode402
        self.drive = drive
        self.transport = transport
        self.bus = simbus.SimBus(mode="threaded" if ticked else "inline", max_delay=0.0002)
        self.net, self.st = simbus.make_network(self.bus, "master", zero_ts=zero_ts)
        self.node = BaseNode402(NODE, od402((1, 2) if transport == "pdo-upload" else (1,)))
        self.net.add_node(self.node)
        self.node.sdo.RESPONSE_TIMEOUT = 5.0 if ticked else 0.2
        for attr in ("TIMEOUT_RESET_FAULT", "TIMEOUT_SWITCH_OP_MODE", "TIMEOUT_SWITCH_STATE_FINAL", "TIMEOUT_SWITCH_STATE_SINGLE", "TIMEOUT_CHECK_TPDO"):
            setattr(self.node, attr, 8.0 if attr != "TIMEOUT_SWITCH_STATE_FINAL" else 20.0)
        if not ticked:
            # inline delivery: the drive has reacted before the library looks, so a time-out can only mean that the
            # commanded transition did not happen (no wall-clock race); keep the waits short
            self.node.TIMEOUT_SWITCH_STATE_SINGLE = 0.05
            self.node.TIMEOUT_SWITCH_STATE_FINAL = 0.5
            self.node.TIMEOUT_RESET_FAULT = 0.05
            # event-driven, inline delivery: every statusword change has been received before the library looks;
            # waiting for a *further* TPDO (the library infers a period from reception intervals) can only time out
            self.node.TIMEOUT_CHECK_TPDO = 0.02
        self.server = RefSdoServer()
        self.server.read_hook = self._read
        self.server.refuse = self._write
        self.server.store[(0x6502, 0)] = struct.pack("<L", drive.supported)
        self.station = self.bus.actor_station("drive", self)
        self.rpdo_cob, self.tpdo_cob = 0x200 + NODE, 0x180 + NODE
        self.sdo_writes = []
        self.rpdo_frames = 0
        self.rpdo_modes = []
        self.lag = 0.0
        self.pending_cw = []
        self.lagged_controlwords = []
        if transport == "sdo-disabled-tpdo":
            n = self.node
            m = n.tpdo[1]
            m.clear()
            m.add_variable(0x6041)
            m.add_variable(0x6061)
            m.cob_id, m.enabled, m.trans_type = self.tpdo_cob, False, 255
            n.setup_402_state_machine(read_pdos=False)
        if transport == "pdo-upload":
            # the library reads the drive's PDO configuration over SDO: PDO 1 still holds the factory mapping but is
            # switched off (bit 31), PDO 2 is the one the drive uses
            self.rpdo_cob, self.tpdo_cob = 0x300 + NODE, 0x280 + NODE

            def put(idx, sub, fmt, v):
                self.server.store[(idx, sub)] = struct.pack(fmt, v)
            for k, (tc, rc) in enumerate(((0x80000000 | (0x180 + NODE), 0x80000000 | (0x200 + NODE)), (self.tpdo_cob, self.rpdo_cob))):
                for com, mp, cob, objs in ((0x1800 + k, 0x1A00 + k, tc, ((0x6041, 16), (0x6061, 8))),
                                           (0x1400 + k, 0x1600 + k, rc, ((0x6040, 16), (0x6060, 8)))):
                    put(com, 0, "<B", 6)
                    put(com, 1, "<L", cob)
                    put(com, 2, "<B", 255)
                    put(com, 3, "<H", 0)
                    put(com, 5, "<H", 0)
                    put(com, 6, "<B", 0)
                    put(mp, 0, "<B", len(objs))
                    for i in range(1, 9):
                        put(mp, i, "<L", (objs[i - 1][0] << 16 | objs[i - 1][1]) if i <= len(objs) else 0)
            self.node.nmt.state = "PRE-OPERATIONAL"
            self.node.setup_402_state_machine(read_pdos=True)
            drive.on_change = self.send_tpdo
        elif transport.startswith("pdo"):
            n = self.node
            for m, idxs, cob in ((n.tpdo[1], (0x6041, 0x6061), self.tpdo_cob), (n.rpdo[1], (0x6040, 0x6060), self.rpdo_cob)):
                m.clear()
                for i in idxs:
                    m.add_variable(i)
                m.cob_id, m.enabled = cob, True
                m.trans_type = 1 if ticked and m is n.tpdo[1] else 255
                m.event_timer = event_timer          # (an event-driven PDO may have a deadline / event timer configured: still event-driven)
            n.setup_402_state_machine(read_pdos=False)
            drive.on_change = self.send_tpdo
        self._stop = threading.Event()
        self._ticker = None
        if ticked:
            self._ticker = threading.Thread(target=self._tick_loop, daemon=True)
            self._ticker.start()

    # SDO side of the drive
    def _read(self, mux):
        if getattr(self, "kill", False):
            raise SystemError("harness: the assignment is being abandoned")
        if mux == (0x6041, 0):
            if self.pending_cw and time.time() >= self.pending_cw[0][0]:
                for _, cw in self.pending_cw:
                    self.drive.write_controlword(cw)
                self.pending_cw = []
            return struct.pack("<H", self.drive.read_status())
        if mux == (0x6061, 0):
            self.drive._auto()
            return struct.pack("<b", self.drive.mode_display)
        return None

    def _write(self, kind, mux, data):
        if kind != "download":
            return None
        self.sdo_writes.append((mux, bytes(data)))
        if mux == (0x6040, 0):
            if self.lag:
                self.pending_cw.append((time.time() + self.lag, struct.unpack("<H", data)[0]))
                self.lagged_controlwords.append(struct.unpack("<H", data)[0])
            else:
                self.drive.write_controlword(struct.unpack("<H", data)[0])
        elif mux == (0x6060, 0):
            self.drive.write_mode(struct.unpack("<b", data)[0])
        return None

    # bus side
    def on_frame(self, frame, station):
        if frame.can_id == 0x600 + NODE and not frame.rtr:
            for resp in self.server.feed(frame.data):
                station.send(0x580 + NODE, resp)
        elif frame.can_id == self.rpdo_cob and not frame.rtr:
            self.rpdo_frames += 1
            cw, mode = struct.unpack("<Hb", frame.data[:3])
            self.rpdo_modes.append(mode)
            if mode != self.drive.mode:
                self.drive.write_mode(mode)
            self.drive.write_controlword(cw)

    def send_tpdo(self):
        self.station.send(self.tpdo_cob, struct.pack("<Hb", self.drive.statusword(), self.drive.mode_display))

    def _tick_loop(self):
        while not self._stop.is_set():
            self.drive.tick()
            self.send_tpdo()
            time.sleep(0.002)

    def close(self):
        self._stop.set()
        if self._ticker:
            self._ticker.join(1)
        self.bus.close()


def run_transitions(ctx, desc):
    rng = random.Random(repr(("c19t", desc["cs"])))
    transport = desc["transport"]
    if transport == "sdo" and desc["cs"] % 10 == 0:
        run_slow_drive(ctx)
    ticked = transport == "pdo-ticked"
    extras = [0, D.EXTRA_BITS] + [rng.getrandbits(16) & D.EXTRA_BITS for _ in range(desc["extras"])]
    for start in D.STATES:
        for target in D.STATES:
            for delay in desc["delays"]:
                extra = rng.choice(extras)
                dont_care = rng.choice([0, 0x20])
                drive = D.Drive402(state=start, auto_delay=delay, extra=extra)
                drive.dont_care = dont_care
                # a drive whose quick stop ends in SWITCH ON DISABLED by itself: a command that arrives just after is ignored,
                # the library has to plan again from where the drive really is
                drive.qsa_auto = start == D.QSA and target != D.QSA and target in COMMANDABLE and rng.random() < 0.6
                evt = rng.choice([None, 0, 100, 65535])
                zero_ts = ticked and rng.random() < 0.5
                rig = DriveRig(transport, drive, ticked, event_timer=evt, zero_ts=zero_ts)
                if transport.startswith("pdo"):
                    rig.send_tpdo()                       # the master knows the current statusword
                    if ticked:
                        # the master must have received a statusword before the call (until then it reads 0)
                        for _ in range(20000):
                            # (judged by what the library will read - its cached statusword - not by the map's time stamp,
                            # which is set a little earlier inside the same critical section)
                            if rig.node.tpdo[1].timestamp is not None and rig.node.tpdo_values.get(0x6041) == drive.statusword():
                                break
                            time.sleep(0.001)
                        else:
                            ctx.inconc("first TPDO never arrived", {"transport": transport})
                            rig.close()
                            continue
                case = {"workload": "transitions", "transport": transport, "start": start, "target": target, "auto_delay": delay,
                        "extra_bits": extra, "dont_care": dont_care, "pdo_event_timer": evt, "frames_stamped_zero": zero_ts,
                        "quick_stop_ends_by_itself": drive.qsa_auto}
                ctx.case(("transition", start, target, delay, transport), nontrivial=start != target)
                ctx.count("transition_cases")
                exc = None
                try:
                    assign_state(rig, target)
                except TimeoutError as e:
                    ctx.inconc(str(e), case)
                    rig.close()
                    continue
                except Exception as e:  # noqa: BLE001
                    exc = e
                if ticked:
                    time.sleep(0.005)
                cws = list(drive.controlwords)
                trace = list(drive.trace)
                info = f"controlwords {[hex(c) for c in cws]}, drive trace {trace}"
                auto_end = {D.NRTSO: D.SOD, D.FRA: D.FAULT}
                if target in COMMANDABLE:
                    if exc is not None:
                        if ticked and isinstance(exc, RuntimeError) and drive.state != target:
                            ctx.inconc(f"time-out under ticked PDO transport: {exc}", case)
                        else:
                            ctx.violation(f"commandable-target-failed:{type(exc).__name__}", f"state = {target!r} from {start!r} raised {exc!r}; {info}", case)
                    elif drive.state != target:
                        ctx.violation("target-not-reached", f"state = {target!r} from {start!r} returned but the drive is in {drive.state!r}; {info}", case)
                    if len(cws) > 12:
                        ctx.violation("too-many-controlwords", f"{len(cws)} controlword writes from {start!r} to {target!r}; {info}", case)
                    entered_oe = any(t[1] == D.OE for t in drive.transitions)
                    if entered_oe and target not in (D.OE, D.QSA):
                        ctx.violation("operation-enabled-on-the-way", f"the drive was switched to OPERATION ENABLED on the way from {start!r} to {target!r}; {info}", case)
                else:
                    arrives = target in trace            # the drive was (or automatically arrived) in that state during the call
                    if cws:
                        ctx.violation("controlword-for-uncommandable-target", f"target {target!r} cannot be commanded but controlwords were written; {info}", case)
                    if exc is None and not arrives:
                        ctx.violation("uncommandable-target-accepted", f"state = {target!r} from {start!r} returned normally, drive is in {drive.state!r}", case)
                    if exc is not None and not isinstance(exc, ValueError):
                        ctx.violation(f"uncommandable-target-wrong-error:{type(exc).__name__}", f"state = {target!r} raised {exc!r} (expected ValueError)", case)
                if len(ctx.samples) < 4 and start != target and target in COMMANDABLE:
                    ctx.sample({"case": case, "controlwords": [hex(c) for c in cws], "trace": trace})
                rig.close()


class Spins(Exception):
    pass


def assign_state(rig, target, guard_s=30.0):
    """``node.state = target`` with a non-termination guard (SDO transports, where every look at the drive is a countable
    status read): after ``guard_s`` seconds - sixty times the configured overall time-out - the call is judged to spin only
    on *logical* evidence gathered meanwhile: more than 2000 status reads (it was running, not starved), not a single
    controlword and no change of the drive's state.  Anything else at that point is inconclusive."""
    if not rig.transport.startswith("sdo"):
        rig.node.state = target
        return
    import threading
    box = {}

    def call():
        try:
            rig.node.state = target
        except BaseException as exc:  # noqa: BLE001
            box["exc"] = exc
    d = rig.drive
    n_reads, n_cw, n_tr = d.status_reads, len(d.controlwords), len(d.transitions)
    th = threading.Thread(target=call, daemon=True)
    th.start()
    th.join(guard_s)
    if th.is_alive():
        evidence = (d.status_reads - n_reads, len(d.controlwords) - n_cw, len(d.transitions) - n_tr)
        rig.kill = True
        th.join(5)
        rig.kill = False
        if evidence[0] > 2000 and evidence[1] == 0 and evidence[2] == 0:
            raise Spins(f"state = {target!r} had not returned after {guard_s:.0f} s: {evidence[0]} status reads, no controlword written, "
                        "drive state unchanged")
        raise TimeoutError(f"assignment still running after {guard_s:.0f} s (reads, controlwords, transitions) = {evidence}")
    if "exc" in box:
        raise box["exc"]


def run_histories(ctx, desc):
    """One node object and one drive over many assignments: what an earlier assignment left behind (last controlword,
    RPDO buffer, cached statusword) must not keep a later one from working.  Between assignments the drive may fault on
    its own (transitions 13/14) or lose power and restart."""
    rng = random.Random(repr(("c19h", desc["cs"])))
    transport = desc["transport"]
    for h in range(desc["count"]):
        drive = D.Drive402(state=rng.choice([D.SOD, D.NRTSO, D.FAULT, D.OE]), auto_delay=rng.choice([0, 0, 1, 2]),
                           extra=rng.getrandbits(16) & D.EXTRA_BITS)
        rig = DriveRig(transport, drive, event_timer=rng.choice([None, 0, 100]))
        if transport.startswith("pdo"):
            rig.send_tpdo()
        ops = []
        for step in range(desc["length"]):
            r = rng.random()
            if r < 0.25:
                ops.append("fault")
                drive.fault()
                for _ in range(4):
                    drive.tick()                      # the fault reaction ends on its own
                if transport.startswith("pdo"):
                    rig.send_tpdo()
                continue
            if r < 0.29 and drive.state != D.NRTSO:
                # a fault whose cause persists for a while: resets are not accepted until it is gone; what the application
                # tries meanwhile is not judged, afterwards every assignment has to work again
                ops.append("fault-with-persisting-cause")
                drive.fault()
                for _ in range(4):
                    drive.tick()
                drive.fault_cause_present = True
                if transport.startswith("pdo"):
                    rig.send_tpdo()
                try:
                    assign_state(rig, rng.choice(COMMANDABLE))
                except Exception:  # noqa: BLE001 - expected: the drive cannot leave FAULT yet
                    pass
                drive.fault_cause_present = False
                continue
            if r < 0.32:
                ops.append("power-cycle")
                drive.power_cycle()
                for _ in range(4):
                    drive.tick()
                if transport.startswith("pdo"):
                    rig.send_tpdo()
                continue
            target = rng.choice(COMMANDABLE)
            start = drive.state
            ops.append(target)
            n_cw, n_tr = len(drive.controlwords), len(drive.transitions)
            case = {"workload": "histories", "transport": transport, "history": f"{desc['cs']}-{h}", "ops": ops[-8:], "start": start, "target": target}
            ctx.case(("history-step", transport, start, target, ops[-2] if len(ops) > 1 else "first"), nontrivial=True)
            ctx.count("transition_cases")
            exc = None
            try:
                assign_state(rig, target)
            except TimeoutError as e:
                ctx.inconc(str(e), case)
                break
            except Exception as e:  # noqa: BLE001
                exc = e
            cws = drive.controlwords[n_cw:]
            info = f"controlwords {[hex(c) for c in cws]}, drive went {[t[:3] for t in drive.transitions[n_tr:]]}, history {ops[-8:]}"
            if exc is not None:
                ctx.violation(f"commandable-target-failed:{type(exc).__name__}:after-earlier-assignments",
                              f"state = {target!r} from {start!r} raised {exc!r}; {info}", case)
                break
            if drive.state != target:
                ctx.violation("target-not-reached", f"state = {target!r} from {start!r} returned but the drive is in {drive.state!r}; {info}", case)
                break
            if any(t[1] == D.OE for t in drive.transitions[n_tr:]) and target not in (D.OE, D.QSA):
                ctx.violation("operation-enabled-on-the-way", f"OPERATION ENABLED on the way from {start!r} to {target!r}; {info}", case)
        if len(ctx.samples) < 6 and h == 0:
            ctx.sample({"workload": "histories", "transport": transport, "ops": ops})
        rig.close()


def run_signalled_reception(ctx, desc):
    """PDO transport with frames delivered from another thread: when wait_for_reception() on the statusword's TPDO hands a
    reception to the waiting thread, `node.statusword` (what check_statusword() returns and `.state` decodes) is that
    frame's statusword.  The receiving thread is held right after it has released the map's lock, so a waiter that can
    overtake the bookkeeping of that frame does."""
    import threading
    from canmon import waits
    rng = random.Random(repr(("c19r", desc["cs"])))
    for k in range(6):
        drive = D.Drive402(state=rng.choice([D.SOD, D.RTSO, D.SO]))
        rig = DriveRig("pdo", drive)
        rig.send_tpdo()
        tpdo = rig.node.tpdo[1]
        cond = waits.SignallingCondition()
        tpdo.receive_condition = cond
        gate = {"waiter": None, "left": threading.Event(), "go": threading.Event(), "max": 20.0}
        box = {}

        def waiter():
            gate["waiter"] = threading.get_ident()
            box["ts"] = tpdo.wait_for_reception(40)
            box["sw"] = rig.node.statusword
            box["state"] = rig.node.state
        wt = threading.Thread(target=waiter, daemon=True)
        n = cond.waits
        wt.start()
        end = time.time() + 30
        while time.time() < end and not (cond.waits > n and cond.waiting.is_set()):
            time.sleep(0.0005)
        new_state = rng.choice([s_ for s_ in (D.OE, D.QSA, D.FAULT, D.SO, D.RTSO) if s_ != drive.state])
        cond.exit_gate = gate

        def receive():
            drive.state = new_state
            rig.send_tpdo()
        rx = threading.Thread(target=receive, daemon=True)
        rx.start()
        wt.join(60)
        gate["go"].set()
        rx.join(30)
        cond.exit_gate = None
        case = {"workload": "signalled-reception", "new_state": new_state}
        ctx.case(("signalled-reception", new_state), nontrivial=True)
        ctx.count("transition_cases")
        if wt.is_alive() or "sw" not in box:
            ctx.inconc("signalled reception: the waiter did not come back", case)
        elif box["ts"] is None:
            ctx.inconc("signalled reception: wait_for_reception timed out", case)
        elif D.decode_statusword(box["sw"]) != new_state or box["state"] != new_state:
            ctx.violation("statusword-stale-after-signalled-reception", f"wait_for_reception handed out the frame that reports {new_state!r}, but node.statusword is "
                          f"{box['sw']:#06x} ({box['state']!r}) right afterwards", case)
        rig.close()


def run_slow_drive(ctx):
    """Every single transition takes 0.3 s (well inside the single-step allowance of 4 s); the whole path takes longer
    than TIMEOUT_SWITCH_STATE_FINAL (0.5 s), which only limits a step that does *not* confirm."""
    for start, target in ((D.SOD, D.OE), (D.FAULT, D.SO)):
        drive = D.Drive402(state=start)
        rig = DriveRig("sdo", drive)
        rig.lag = 0.3
        rig.node.TIMEOUT_SWITCH_STATE_SINGLE = 4.0
        rig.node.TIMEOUT_SWITCH_STATE_FINAL = 0.5
        case = {"workload": "slow-drive", "start": start, "target": target, "lag_s": 0.3}
        ctx.case(("slow-drive", start, target), nontrivial=True)
        ctx.count("transition_cases")
        exc = None
        try:
            rig.node.state = target
        except Exception as e:  # noqa: BLE001
            exc = e
        if exc is not None or drive.state != target:
            ctx.violation("slow-conformant-drive-abandoned", f"a drive needing 0.3 s per transition (allowance 4 s per step) was not brought from {start!r} to "
                          f"{target!r}: {exc!r}, drive in {drive.state!r}, controlwords {[hex(c) for c in rig.lagged_controlwords]}", case)
        rig.close()


def run_modes(ctx, desc):
    rng = random.Random(repr(("c19m", desc["cs"], desc["transport"])))
    masks = list(range(1024)) if desc["masks"] >= 1024 else sorted(set([0, 0x3FF, 0x10, 0x3EF] + [1 << k for k in range(10)] + [rng.getrandbits(10) for _ in range(desc["masks"])]))
    transport = desc["transport"]
    for mask in masks:
        for name, code in D.MODE_CODES.items():
            if desc["masks"] < 1024 and rng.random() < 0.5:
                continue
            drive = D.Drive402(state=D.SOD, supported=mask | (rng.getrandbits(6) << 16) | (0x10 if rng.random() < 0.5 else 0), mode_delay=rng.choice([0, 0, 2]) if transport == "sdo" else 0)
            rig = DriveRig(transport, drive)
            rig.node.TIMEOUT_SWITCH_OP_MODE = 0.5
            if transport == "pdo":
                rig.send_tpdo()
            supported = (drive.supported & D.MODE_SUPPORT_BIT[name]) == D.MODE_SUPPORT_BIT[name]
            case = {"workload": "modes", "transport": transport, "mode": name, "supported_mask": drive.supported}
            ctx.case(("mode", name, supported, transport), nontrivial=True)
            ctx.count("mode_cases")
            exc = None
            try:
                rig.node.op_mode = name
            except Exception as e:  # noqa: BLE001
                exc = e
            writes = list(drive.mode_writes) if transport == "sdo" else list(rig.rpdo_modes)
            if supported:
                if exc is not None:
                    ctx.violation(f"supported-mode-refused:{type(exc).__name__}", f"op_mode = {name!r} with support mask {drive.supported:#x} raised {exc!r}", case)
                elif not writes or writes[-1] != code or any(w != code for w in writes):
                    ctx.violation("mode-code-written", f"op_mode = {name!r} wrote {writes} to 0x6060, the CiA 402 code is {code}", case)
            else:
                if transport == "pdo":
                    # the refused code must not ride along with the next transmission of the RPDO that carries the controlword
                    before = drive.mode
                    try:
                        rig.node.state = D.RTSO
                    except Exception:  # noqa: BLE001
                        pass
                    if drive.mode != before or any(m == code and code != before for m in rig.rpdo_modes):
                        ctx.violation("unsupported-mode-reached-the-drive-later", f"op_mode = {name!r} was refused, yet the drive's mode became {drive.mode} "
                                      f"(RPDO mode bytes {rig.rpdo_modes}) with the next controlword", case)
                if not isinstance(exc, TypeError):
                    ctx.violation("unsupported-mode-accepted", f"op_mode = {name!r} is not advertised in {drive.supported:#x} but the call ended in {exc!r}", case)
                if writes:
                    ctx.violation("unsupported-mode-written", f"op_mode = {name!r} (not advertised) still wrote {writes} to 0x6060", case)
            rig.close()
    ctx.sample({"workload": "modes", "transport": transport, "masks": len(masks)})


def run(ctx, desc):
    rigs.LogCapture()
    if desc["kind"] == "decode":
        run_decode(ctx, desc)
    elif desc["kind"] == "decode-pdo":
        run_decode_pdo(ctx, desc)
    elif desc["kind"] == "transitions":
        run_transitions(ctx, desc)
    elif desc["kind"] == "histories":
        run_histories(ctx, desc)
        if desc["transport"] == "pdo":
            run_signalled_reception(ctx, desc)
    else:
        run_modes(ctx, desc)


def replay(ctx, case):
    ctx.case(("replay",))
    if "statusword" in case:
        from canopen.profiles.p402 import BaseNode402
        node = BaseNode402(NODE, od402())
        node.tpdo_values[0x6041] = case["statusword"]
        ctx.sample({"statusword": case["statusword"], "state": node.state, "expected": D.decode_statusword(case["statusword"])})
        return
    ctx.inconc("re-run the shard with the same seed", case)
