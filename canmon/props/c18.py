"""C18 - LSS fast scan finds the one unconfigured device's identity, bit for bit.

network.lss <-> ref.lss_slave (CiA 305) on an inline SimBus.  Oracles: identity
returned by fast_scan == the slave's identity and the slave ends in
configuration state; the slave's validation of every request (LSS wire
monitor); return values / LssError of inquire, configure, store under reply
faults; selective switch confirmed.  canopen.lss.time is replaced by a virtual
clock (the sleeps there are device pacing only).
"""
from __future__ import annotations

import random
import struct

from canmon import faults, rigs, simbus
from canmon.ref.lss_slave import CONFIGURATION, WAITING, LssActor, LssSlave

ID = "C18"
LEVEL = "exploration"
RULE = ("identities: all-zero, all-one, each of the 128 bits set alone and cleared alone (32 sampled per polarity in quick, all "
        "in thorough), seeded random; no slave present; slave already configured (must not answer); after a successful scan: "
        "inquire x5, configure node id 0..255, bit timing 0..255, store, activate; reply faults: every error code 1..255, "
        "wrong specifier, dropped reply, for configure / store / inquire; selective switch with right and wrong identities. "
        "Signature = (workload, identity class / service, fault class); non-trivial = identity is not all-zero.")
RULE += (" " + 'Widened later: two-device commissioning on one master, identify remote slave (six fields), every third rig on a buffer-reusing back end, slow slave.')
RULE += (" " + "Widened later: every fourth rig is an interface without receive timestamps; in the two-device commissioning the master may inquire the first device's node id first and the second device is given a node id too (a fresh one or the one just used).")
ASSUMPTIONS = ["RESPONSE_TIMEOUT lowered to 0.5 ms and canopen.lss.time virtualised: wall clock never decides (inline delivery)",
               "one unconfigured slave on the bus (what the property states)"]
REQUIRED = {"scans": 40, "lss_requests_validated": 2000, "service_calls": 300, "fault_cases": 300}


class VirtualTime:
    def __init__(self):
        self.slept = 0.0
        self.calls = 0

    def sleep(self, dt):
        self.slept += dt
        self.calls += 1


def plan(tier, seed):
    n = 8
    return [{"part": i, "parts": n, "bits": 32 if tier == "quick" else 128, "random_ids": 6 if tier == "quick" else 300,
             "fault_codes": 40 if tier == "quick" else 255, "cs": seed * 100 + i} for i in range(n)]


class Rig:
    created = 0

    def __init__(self, identity=None, node_id=0xFF, via=None):
        import canopen.lss
        Rig.created += 1
        if via is None:
            # every third rig: a back end that hands frames to Network.notify() in one reused receive buffer
            via = "notify-reuse" if Rig.created % 3 == 0 else "listener"
        self.vt = VirtualTime()
        canopen.lss.time = self.vt
        self.bus = simbus.SimBus(mode="inline")
        # every fourth rig: an interface without receive timestamps (every frame is handed over with timestamp 0)
        self.net, self.st = simbus.make_network(self.bus, "master", via=via, zero_ts=Rig.created % 4 == 1)
        self.lss = self.net.lss
        self.lss.RESPONSE_TIMEOUT = 0.0005
        self.slave = None
        if identity is not None:
            self.slave = LssSlave(identity, node_id)
            self.bus.actor_station("slave", LssActor(self.slave))

    def close(self):
        self.bus.close()


def idclass(ident):
    if all(p == 0 for p in ident):
        return "all-zero"
    if all(p == 0xFFFFFFFF for p in ident):
        return "all-one"
    ones = sum(bin(p).count("1") for p in ident)
    return "one-bit" if ones == 1 else "one-zero" if ones == 127 else "random"


def flush(ctx, rig, case):
    if rig.slave:
        for mech, msg in rig.slave.violations:
            ctx.violation("wire:" + mech, msg, case, [f.brief() for f in list(rig.bus.log)[-12:]])
        rig.slave.violations.clear()
    for f in rig.bus.log:
        if f.src == "master" and f.can_id != 0x7E5:
            ctx.violation("lss-request-wrong-id", f"LSS master sent {f.brief()} (requests belong on 0x7E5)", case)
            break


def scan_case(ctx, ident, follow_up, rng):
    from canopen.lss import LssError
    rig = Rig(ident)
    case = {"workload": "scan", "identity": [hex(p) for p in ident], "backend": rig.st.via}
    ctx.seen("backends", rig.st.via)
    ctx.case(("scan", idclass(ident)), nontrivial=idclass(ident) != "all-zero")
    ctx.count("scans")
    try:
        ok, found = rig.lss.fast_scan()
    except Exception as exc:  # noqa: BLE001
        ctx.violation(f"fast-scan-raised:{type(exc).__name__}", f"fast_scan raised {exc!r}", case)
        rig.close()
        return
    if not ok or list(found or []) != list(ident):
        bad = [i for i in range(4) if not found or found[i] != ident[i]]
        ctx.violation("fast-scan-wrong-identity", f"fast_scan returned ({ok}, {[hex(p) for p in found] if found else found}) for identity {[hex(p) for p in ident]} (parts {bad} differ)", case)
    elif rig.slave.state != CONFIGURATION:
        ctx.violation("fast-scan-slave-not-in-configuration", f"scan succeeded but the slave is in state {rig.slave.state}", case)
    ctx.count("lss_requests_validated", rig.slave.requests)
    flush(ctx, rig, case)
    if follow_up and ok:
        services(ctx, rig, rng, case)
    ctx.add("virtual_seconds_skipped", int(rig.vt.slept * 1000))
    if len(ctx.samples) < 3:
        ctx.sample({"identity": [hex(p) for p in ident], "found": [hex(p) for p in found] if found else None,
                    "requests": rig.slave.requests, "virtual_sleep_s": round(rig.vt.slept, 2)})
    rig.close()


def commission_two(ctx, rng):
    """Commissioning as CiA 305 describes it: find the one unconfigured device, give it a node id, send it back to
    waiting state, plug in the next unconfigured device, scan again - all on one LssMaster."""
    ida = [rng.getrandbits(32) for _ in range(4)]
    idb = [rng.getrandbits(32) for _ in range(4)]
    if rng.random() < 0.5:
        idb = [p & rng.getrandbits(32) for p in ida]          # the second identity has a subset of the first one's bits
    rig = Rig(ida)
    case = {"workload": "two-devices", "first": [hex(p) for p in ida], "second": [hex(p) for p in idb], "backend": rig.st.via}
    ctx.case(("scan", "two-devices", rig.st.via), nontrivial=True)
    try:
        ok, found = rig.lss.fast_scan()
        ctx.count("scans")
        if not ok or list(found) != ida:
            ctx.violation("fast-scan-wrong-identity", f"first scan returned ({ok}, {found})", case)
            rig.close()
            return
        kept = list(found)
        given = rng.randint(1, 127)
        if rng.random() < 0.5:
            rig.lss.inquire_node_id()
        rig.lss.configure_node_id(given)
        if rig.slave.pending_node_id != given or rig.lss.inquire_node_id() != given:
            ctx.violation("configure-node-id-not-applied", f"first device holds node id {rig.slave.pending_node_id} after configure_node_id({given})", case)
        rig.lss.store_configuration()
        rig.lss.send_switch_state_global(rig.lss.WAITING_STATE)
        second = LssSlave(idb)
        rig.bus.actor_station("slave2", LssActor(second))
        ok2, found2 = rig.lss.fast_scan()
        ctx.count("scans")
        if not ok2 or list(found2 or []) != idb:
            ctx.violation("fast-scan-wrong-identity:second-device", f"second scan on the same master returned ({ok2}, {[hex(p) for p in found2] if found2 else found2}) "
                          f"for identity {[hex(p) for p in idb]} (first device {[hex(p) for p in ida]} is configured now)", case)
        elif second.state != CONFIGURATION:
            ctx.violation("fast-scan-slave-not-in-configuration", f"second scan succeeded but the device is in state {second.state}", case)
        if ok2 and second.state == CONFIGURATION:
            # the second device gets a node id too: a fresh one, or the one just used (it replaces the first device)
            nid2 = given if rng.random() < 0.5 else rng.randint(1, 127)
            case["second_node_id"] = "same" if nid2 == given else "other"
            ctx.count("service_calls")
            ctx.case(("configure-node-id", "second-device", case["second_node_id"]), nontrivial=True)
            rig.lss.configure_node_id(nid2)
            if second.pending_node_id != nid2:
                ctx.violation("configure-node-id-not-applied:second-device", f"second device holds node id {second.pending_node_id} after configure_node_id({nid2}) "
                              f"(the first device was given {given})", case)
            elif rig.lss.inquire_node_id() != nid2:
                ctx.violation("inquire-node-id", f"inquire_node_id() != {nid2} on the second device", case)
        if list(found) != kept:
            ctx.violation("fast-scan-result-changed-later", f"the identity returned by the first scan changed to {[hex(p) for p in found]} during the second scan", case)
        for mech, msg in second.violations:
            ctx.violation("wire:" + mech, msg, case)
        ctx.count("lss_requests_validated", second.requests)
    except Exception as exc:  # noqa: BLE001
        ctx.violation(f"fast-scan-raised:{type(exc).__name__}", f"two-device commissioning raised {exc!r}", case)
    flush(ctx, rig, case)
    rig.close()


def services(ctx, rig, rng, case0):
    """Inquire / configure / store against a slave in configuration state."""
    from canopen.lss import LssError
    import canopen.lss as L
    lss, slave = rig.lss, rig.slave
    for i, cs in enumerate((L.CS_INQUIRE_VENDOR_ID, L.CS_INQUIRE_PRODUCT_CODE, L.CS_INQUIRE_REVISION_NUMBER, L.CS_INQUIRE_SERIAL_NUMBER)):
        ctx.count("service_calls")
        ctx.case(("inquire", i), nontrivial=True)
        try:
            got = lss.inquire_lss_address(cs)
            if got != slave.identity[i]:
                ctx.violation("inquire-wrong-value", f"inquire part {i} returned {got:#x}, slave holds {slave.identity[i]:#x}", case0)
        except Exception as exc:  # noqa: BLE001
            ctx.violation(f"inquire-raised:{type(exc).__name__}", f"inquire part {i} raised {exc!r}", case0)
    for nid in rng.sample(range(256), 24) + [0, 1, 127, 128, 254, 255]:
        ctx.count("service_calls")
        valid = 1 <= nid <= 127 or nid == 255
        ctx.case(("configure-node-id", "valid" if valid else "invalid"), nontrivial=True)
        try:
            lss.configure_node_id(nid)
            if not valid:
                ctx.violation("configure-error-not-raised", f"configure_node_id({nid}) was answered with an error code but returned normally", case0)
            elif slave.pending_node_id != nid:
                ctx.violation("configure-node-id-not-applied", f"slave holds node id {slave.pending_node_id} after configure_node_id({nid})", case0)
            elif lss.inquire_node_id() != nid:
                ctx.violation("inquire-node-id", f"inquire_node_id() != {nid}", case0)
        except LssError as exc:
            if valid:
                ctx.violation("configure-valid-raised", f"configure_node_id({nid}) raised {exc!r}", case0)
        except Exception as exc:  # noqa: BLE001
            ctx.violation(f"configure-raised:{type(exc).__name__}", f"configure_node_id({nid}) raised {exc!r}", case0)
    for bt in rng.sample(range(256), 16) + [0, 4, 5, 8, 9, 255]:
        ctx.count("service_calls")
        valid = bt in (0, 1, 2, 3, 4, 6, 7, 8)
        ctx.case(("configure-bit-timing", "valid" if valid else "invalid"), nontrivial=True)
        try:
            lss.configure_bit_timing(bt)
            if not valid:
                ctx.violation("configure-error-not-raised", f"configure_bit_timing({bt}) was refused by the slave but returned normally", case0)
            elif slave.bit_timing != bt:
                ctx.violation("configure-bit-timing-not-applied", f"slave holds bit timing {slave.bit_timing} after configure_bit_timing({bt})", case0)
        except LssError as exc:
            if valid:
                ctx.violation("configure-valid-raised", f"configure_bit_timing({bt}) raised {exc!r}", case0)
    n = slave.stored
    ctx.count("service_calls")
    ctx.case(("store",), nontrivial=True)
    try:
        lss.store_configuration()
        if slave.stored != n + 1:
            ctx.violation("store-not-received", "store_configuration() returned but the slave saw no store request", case0)
    except Exception as exc:  # noqa: BLE001
        ctx.violation(f"store-raised:{type(exc).__name__}", f"store_configuration() raised {exc!r}", case0)
    # identify remote slave: six requests carrying vendor id, product code and the two ranges, each under its own specifier
    ident = slave.identity
    for inside in (True, False, True):
        rev = (rng.randint(0, ident[2]), rng.randint(ident[2], 0xFFFFFFFF))
        ser = (rng.randint(0, ident[3]), rng.randint(ident[3], 0xFFFFFFFF))
        if not inside:
            if ident[2] < 0xFFFFFFFF:
                rev = (ident[2] + 1, 0xFFFFFFFF)          # a range that excludes the device
            else:
                ser = (0, ident[3] - 1)
        ctx.count("service_calls")
        ctx.case(("identify-remote-slave", inside), nontrivial=True)
        answers = slave.identify_answers
        try:
            lss.send_identify_remote_slave(ident[0], ident[1], rev[0], rev[1], ser[0], ser[1])
        except Exception as exc:  # noqa: BLE001
            ctx.violation(f"identify-raised:{type(exc).__name__}", f"send_identify_remote_slave raised {exc!r}", case0)
            continue
        want = {0x46: ident[0], 0x47: ident[1], 0x48: rev[0], 0x49: rev[1], 0x4A: ser[0], 0x4B: ser[1]}
        got = getattr(slave, "identify_last", None)
        if got != want:
            ctx.violation("identify-remote-slave-fields", "send_identify_remote_slave(vendor, product, rev low, rev high, serial low, serial high) "
                          f"reached the slave as { {hex(k): hex(v) for k, v in (got or {}).items()} }, expected { {hex(k): hex(v) for k, v in want.items()} }", case0)
        elif (slave.identify_answers > answers) != inside:
            ctx.violation("identify-remote-slave-answer", f"device inside the ranges: {inside}, device answered: {slave.identify_answers > answers}", case0)
    delay = rng.choice([0, 1, 1000, 65535])
    lss.activate_bit_timing(delay)
    ctx.count("service_calls")
    ctx.case(("activate",), nontrivial=True)
    if not slave.activated or slave.activated[-1] != delay:
        ctx.violation("activate-bit-timing-frame", f"slave saw switch delays {slave.activated}, expected last {delay}", case0)
    lss.send_switch_state_global(lss.WAITING_STATE)
    if slave.state != WAITING:
        ctx.violation("switch-global", "slave not in waiting state after send_switch_state_global(WAITING_STATE)", case0)
    flush(ctx, rig, case0)


def fault_cases(ctx, rng, n_codes):
    """Replies replaced by error codes, wrong specifiers, or dropped."""
    from canopen.lss import LssError
    import canopen.lss as L
    ident = [rng.getrandbits(32) for _ in range(4)]
    calls = {
        "configure_node_id": lambda lss: lss.configure_node_id(5),
        "configure_bit_timing": lambda lss: lss.configure_bit_timing(2),
        "store_configuration": lambda lss: lss.store_configuration(),
    }
    codes = list(range(1, 256)) if n_codes >= 255 else sorted(set([1, 2, 255, 128, 127] + rng.sample(range(1, 256), n_codes)))
    for name, call in calls.items():
        for kind in ["drop", "wrong-cs"] + [("code", c) for c in codes]:
            rig = Rig(ident)
            rig.lss.send_switch_state_global(rig.lss.CONFIGURATION_STATE)
            if kind == "drop":
                act = faults.drop
            elif kind == "wrong-cs":
                act = lambda f: [f.replace(data=bytes([f.data[0] ^ rng.choice([0x01, 0x02, 0x40])]) + f.data[1:])]  # noqa: E731
            else:
                act = lambda f, c=kind[1]: [f.replace(data=bytes([f.data[0], c]) + f.data[2:])]  # noqa: E731
            rig.bus.fault = faults.OneShot(lambda f: f.src == "slave", 0, act)
            case = {"workload": "faults", "call": name, "fault": kind}
            ctx.count("fault_cases")
            ctx.case(("fault", name, kind if isinstance(kind, str) else "error-code"), nontrivial=True)
            try:
                call(rig.lss)
                ctx.violation(f"lss-error-not-raised:{kind if isinstance(kind, str) else 'error-code'}", f"{name} returned normally although the reply was {kind}", case)
            except LssError:
                pass
            except Exception as exc:  # noqa: BLE001
                ctx.violation(f"lss-wrong-exception:{type(exc).__name__}", f"{name} with reply {kind} raised {exc!r} (expected LssError)", case)
            if not rig.bus.fault.fired:
                ctx.inconc("fault plan never fired", case)
            rig.close()
    for cs_name, cs in (("vendor", L.CS_INQUIRE_VENDOR_ID), ("serial", L.CS_INQUIRE_SERIAL_NUMBER), ("node-id", None)):
        for kind in ("drop", "wrong-cs"):
            rig = Rig(ident)
            rig.lss.send_switch_state_global(rig.lss.CONFIGURATION_STATE)
            act = faults.drop if kind == "drop" else (lambda f: [f.replace(data=bytes([f.data[0] ^ 0x03]) + f.data[1:])])
            rig.bus.fault = faults.OneShot(lambda f: f.src == "slave", 0, act)
            case = {"workload": "faults", "call": "inquire-" + cs_name, "fault": kind}
            ctx.count("fault_cases")
            ctx.case(("fault", "inquire-" + cs_name, kind), nontrivial=True)
            try:
                rig.lss.inquire_node_id() if cs is None else rig.lss.inquire_lss_address(cs)
                ctx.violation(f"lss-error-not-raised:{kind}", f"inquire {cs_name} returned normally although the reply was {kind}", case)
            except LssError:
                pass
            except Exception as exc:  # noqa: BLE001
                ctx.violation(f"lss-wrong-exception:{type(exc).__name__}", f"inquire {cs_name} with reply {kind} raised {exc!r}", case)
            rig.close()


def stale_replies(ctx, rng):
    """A duplicated or late reply must not be taken for the answer to the next request."""
    from canopen.lss import LssError
    import canopen.lss as L
    for kind in ("duplicate", "late"):
        ident = [rng.getrandbits(32) for _ in range(4)]
        rig = Rig(ident)
        rig.lss.send_switch_state_global(rig.lss.CONFIGURATION_STATE)
        held = []
        act = faults.duplicate if kind == "duplicate" else (lambda f: held.append(f) or [])
        rig.bus.fault = faults.OneShot(lambda f: f.src == "slave", 0, act)
        case = {"workload": "stale-reply", "kind": kind}
        ctx.count("fault_cases")
        ctx.case(("stale-reply", kind), nontrivial=True)
        try:
            rig.lss.inquire_lss_address(L.CS_INQUIRE_VENDOR_ID)
        except LssError:
            pass
        for f in held:
            rig.bus.inject(0x7E4, f.data, src="slave")
        try:
            got = rig.lss.inquire_lss_address(L.CS_INQUIRE_PRODUCT_CODE)
            if got != ident[1]:
                ctx.violation(f"stale-lss-reply-used:{kind}", f"after a {kind} reply the next inquire returned {got:#x} instead of {ident[1]:#x}", case)
        except Exception as exc:  # noqa: BLE001
            ctx.violation(f"stale-lss-reply-used:{kind}", f"after a {kind} reply to the previous request the next inquire raised {exc!r}", case)
        rig.close()


def slow_slave(ctx):
    """A slave that needs 0.7 s per answer is not silent when the application allows 20 s."""
    import time
    import canopen.lss as L
    from canopen.lss import LssError
    ident = [0x11111111, 0x22222222, 0x33333333, 0x44444444]
    vt = VirtualTime()
    L.time = vt
    bus = simbus.SimBus(mode="threaded")
    net, st = simbus.make_network(bus, "master")
    net.lss.RESPONSE_TIMEOUT = 20.0
    slave = LssSlave(ident)

    class Slow(LssActor):
        def on_frame(self, frame, station):
            if frame.can_id == self.rx:
                time.sleep(0.7)
            super().on_frame(frame, station)
    bus.actor_station("slave", Slow(slave))
    ctx.case(("slow-slave",), nontrivial=True)
    ctx.count("service_calls")
    ok = True
    try:
        net.lss.send_switch_state_global(net.lss.CONFIGURATION_STATE)
        got = net.lss.inquire_lss_address(L.CS_INQUIRE_PRODUCT_CODE)
        if got != ident[1]:
            ok = False
            ctx.violation("inquire-wrong-value", f"slow slave: inquire returned {got:#x}", {"workload": "slow-slave"})
    except LssError as exc:
        ok = False
        ctx.violation("slow-slave-treated-as-silent", f"the slave answered after 0.7 s, RESPONSE_TIMEOUT is 20 s, yet the call raised {exc!r}", {"workload": "slow-slave"})
    bus.close()
    return ok


def selective(ctx, rng):
    for _ in range(6):
        ident = [rng.getrandbits(32) for _ in range(4)]
        rig = Rig(ident)
        case = {"workload": "selective", "identity": [hex(p) for p in ident]}
        ctx.count("service_calls")
        ctx.case(("selective", "match"), nontrivial=True)
        try:
            if rig.lss.send_switch_state_selective(*ident) is not True or rig.slave.state != CONFIGURATION:
                ctx.violation("selective-not-confirmed", f"selective switch to the slave's own identity was not confirmed (state {rig.slave.state})", case)
        except Exception as exc:  # noqa: BLE001
            ctx.violation(f"selective-raised:{type(exc).__name__}", f"send_switch_state_selective raised {exc!r}", case)
        flush(ctx, rig, case)
        rig.close()
        rig = Rig(ident)
        wrong = list(ident)
        wrong[rng.randrange(4)] ^= 1 << rng.randrange(32)
        ctx.count("service_calls")
        ctx.case(("selective", "mismatch"), nontrivial=True)
        try:
            res = rig.lss.send_switch_state_selective(*wrong)
            if res is True or rig.slave.state == CONFIGURATION:
                ctx.violation("selective-confirmed-wrong-identity", f"selective switch with {wrong} confirmed for slave {ident}", case)
        except Exception:  # noqa: BLE001 - silence may surface as LssError: allowed ("raise the LSS error on silence")
            pass
        rig.close()


def run(ctx, desc):
    rigs.LogCapture()
    rng = random.Random(repr(("c18", desc["cs"])))
    if not slow_slave(ctx):
        return          # the configured time-out is not honoured: everything below would only be slow
    idents = []
    if desc["part"] == 0:
        idents += [[0, 0, 0, 0], [0xFFFFFFFF] * 4]
    bits = list(range(128))
    if desc["bits"] < 128:
        bits = sorted(rng.sample(range(128), desc["bits"]))
    for b in bits:
        if b % desc["parts"] != desc["part"] and desc["bits"] >= 128:
            continue
        one = [0, 0, 0, 0]
        one[b // 32] = 1 << (b % 32)
        idents.append(one)
        idents.append([p ^ 0xFFFFFFFF for p in one])
    if desc["bits"] < 128:
        idents = idents[:2] + [x for i, x in enumerate(idents[2:]) if i % desc["parts"] == desc["part"]] if desc["part"] == 0 else \
            [x for i, x in enumerate(idents) if i % desc["parts"] == desc["part"]]
    for _ in range(desc["random_ids"]):
        idents.append([rng.getrandbits(32) for _ in range(4)])
    for i, ident in enumerate(idents):
        scan_case(ctx, ident, follow_up=(i % 4 == 0), rng=rng)
    # no slave present
    rig = Rig(None)
    ctx.case(("scan", "no-slave"), nontrivial=True)
    ctx.count("scans")
    try:
        res = rig.lss.fast_scan()
        if res != (False, None):
            ctx.violation("fast-scan-no-slave", f"fast_scan without any slave returned {res}", {"workload": "no-slave"})
    except Exception as exc:  # noqa: BLE001
        ctx.violation(f"fast-scan-raised:{type(exc).__name__}", f"fast_scan without slave raised {exc!r}", {"workload": "no-slave"})
    rig.close()
    # a configured slave does not take part in fast scan
    rig = Rig([1, 2, 3, 4], node_id=17)
    ctx.case(("scan", "configured-slave"), nontrivial=True)
    ctx.count("scans")
    res = rig.lss.fast_scan()
    if res != (False, None):
        ctx.violation("fast-scan-configured-slave", f"fast_scan with only a configured slave returned {res}", {"workload": "configured"})
    rig.close()
    for _ in range(3):
        commission_two(ctx, rng)
    if desc["part"] in (0, 1, 2):
        fault_cases(ctx, rng, desc["fault_codes"])
    selective(ctx, rng)
    stale_replies(ctx, rng)


def replay(ctx, case):
    rigs.LogCapture()
    if case.get("workload") == "scan":
        scan_case(ctx, [int(p, 16) for p in case["identity"]], True, random.Random(1))
    else:
        ctx.case(("replay",))
        ctx.inconc("re-run the shard with the same seed", case)
