"""C08 - importing an EDS/DCF yields exactly the described object dictionary.

gen.eds_model (plain data) -> ref.eds_writer (independent writer, seeded spelling
choices) -> canopen.import_od (StringIO with .name, and a real file path) ->
attribute-by-attribute comparison with the model (canmon.odcompare).
"""
from __future__ import annotations

import io
import os
import random

from canmon import gen, odcompare, rigs
from canmon.ref import eds_writer

ID = "C08"
LEVEL = "exploration"
RULE = ("case = one generated dictionary (all data and access types, defaults, limits incl. signed limits of every width as "
        "two's complement hex or negative decimal, $NODEID-relative values, records, arrays, CompactSubObj arrays with and "
        "without name list, DOMAIN object type, missing ObjectType, comments, device info) written in one seeded spelling "
        "(decimal/hex, case, sub/Sub) as .eds or .dcf and imported with the node id given explicitly, taken from the file, or "
        "absent; from a StringIO and from a file path. Signature = (suffix, node id source, source kind, spelling seed class); "
        "every dictionary is non-trivial (>= 17 objects).")
ASSUMPTIONS = ["names are unique, stripped, without ';', '#', '.'; octal spellings, sparse name lists and limits on REAL types are not generated",
               "without a node id in force $NODEID-relative values are unresolvable and not compared",
               "negative defaults of signed types are written in decimal (the property speaks of two's complement for limits only)"]
REQUIRED = {"import.dictionaries_compared": 50, "import.variables_compared": 2000}


def plan(tier, seed):
    n = 8
    return [{"count": 20 if tier == "quick" else 2000, "cs": seed * 100 + i} for i in range(n)]


def run(ctx, desc):
    import canopen
    rigs.LogCapture()
    rng = random.Random(repr(("c08", desc["cs"])))
    work = os.path.join(os.path.dirname(os.path.dirname(os.path.dirname(os.path.abspath(__file__)))), ".work", f"c08-{desc['cs']}-{os.getpid()}")
    os.makedirs(work, exist_ok=True)
    try:
        for k in range(desc["count"]):
            dcf = rng.random() < 0.5
            node_src = rng.choice(["explicit", "file" if dcf else "explicit", "absent"])
            node_id = rng.choice([rng.randint(1, 127), rng.randint(1, 127), 127, 1])      # the ends of the legal range too
            model = gen.eds_model(rng, node_id=node_id if node_src != "absent" else None, dcf=dcf,
                                  n_objects=rng.randint(6, 22), relative=node_src != "absent" or True)
            if node_src == "absent":
                # relative values are still written, they just cannot be resolved
                model = gen.eds_model(rng, node_id=node_id, dcf=dcf, n_objects=rng.randint(6, 22))
            style_seed = rng.randint(0, 1 << 30)
            model_for_file = model
            file_has_node = dcf and node_src in ("file", "explicit") and rng.random() < 0.8 or (dcf and node_src == "file")
            saved_nid = model.node_id
            if not file_has_node:
                model.node_id = None
            text = eds_writer.write(model_for_file, eds_writer.Style(random.Random(style_seed)), dcf=dcf)
            model.node_id = saved_nid
            suffix = ".dcf" if dcf else ".eds"
            suffix = rng.choice([suffix, suffix.upper()])
            arg_nid = node_id if node_src == "explicit" else None
            node_known = node_src == "explicit" or (node_src == "file" and file_has_node)
            section_present = dcf and (file_has_node or model.bitrate is not None)
            expect_nid = (arg_nid if arg_nid is not None else (node_id if file_has_node else None)) if section_present else None
            for source in ("stringio", "path"):
                case = {"k": k, "suffix": suffix, "node_id_source": node_src, "source": source, "style_seed": style_seed, "cs": desc["cs"], "dcf": dcf}
                ctx.case((suffix.lower(), node_src, source, style_seed % 7), nontrivial=True)
                try:
                    if source == "stringio":
                        fp = io.StringIO(text)
                        fp.name = "device" + suffix
                        od = canopen.import_od(fp, arg_nid)
                    else:
                        path = os.path.join(work, f"dev{k}{suffix}")
                        with open(path, "w") as fh:
                            fh.write(text)
                        od = canopen.import_od(path, arg_nid)
                        os.unlink(path)
                except Exception as exc:  # noqa: BLE001
                    ctx.violation(f"import-raised:{type(exc).__name__}", f"import_od raised {type(exc).__name__}: {exc}", dict(case, text_head=text[:600]))
                    continue
                odcompare.compare(ctx, model, od, case, "import", dcf=dcf, node_known=node_known, check_node=True,
                                  expect_node_id=expect_nid, expect_bitrate=model.bitrate if dcf else None)
            if len(ctx.samples) < 2:
                ctx.sample({"case": case, "objects": len(model.objects), "text_excerpt": text[text.find("[1018]"):][:500]})
    finally:
        import shutil
        shutil.rmtree(work, ignore_errors=True)


def replay(ctx, case):
    ctx.case(("replay",))
    ctx.inconc("re-run the shard with the same seed (models are generated per shard)", case)
