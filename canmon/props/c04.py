"""C04 - data type codec is the exact CiA 301 representation and never silently wraps.

Deciding oracle: ref.codec, applied through record-only contracts on
ODVariable.encode_raw / decode_raw / __len__ (canmon.oracles.install_codec).
The workload only *drives* the real functions; the contracts judge every call.
"""
from __future__ import annotations

import struct

from canmon import oracles
from canmon.ref import codec as R

ID = "C04"
LEVEL = "exploration"
RULE = ("cases = (data type, operation, value class); value classes: in-range boundary (range ends, powers of two +-2), "
        "in-range random, out-of-range by 1 / by 2^k / far, byte patterns of right length, byte strings of every wrong "
        "length 0..9, REAL specials (subnormal, inf, -0.0, NaN patterns), strings per code point block. 8- and 16-bit "
        "integer types are enumerated exhaustively (values and byte patterns). A case is non-trivial when the value is "
        "not 0/1/empty; distinct = distinct (type, op, class) triples. One shard re-types a single ODVariable object between calls "
        "(type assigned late, then changed 6 times: every ordered pair of numeric types in thorough).")
ASSUMPTIONS = ["reference codec uses Python int.to_bytes/from_bytes and struct for IEEE 754",
               "BOOLEAN judged for 0/1/True/False only; strings ending in NUL are not judged on decode (library strips them by design)"]
REQUIRED = {"codec.encode_int": 1000, "codec.decode_num": 1000, "codec.len": 19, "codec.encode_str": 100,
            "codec.decode_str": 100, "codec.encode_real": 40}
EXHAUSTIVE = ["all 256 values and byte patterns of INTEGER8/UNSIGNED8", "all 65536 values and byte patterns of INTEGER16/UNSIGNED16",
              "all 128 ASCII code points (VISIBLE_STRING)", "wrong lengths 0..9 for every numeric type"]


def plan(tier, seed):
    groups = [
        [R.INTEGER8, R.UNSIGNED8, R.BOOLEAN, R.INTEGER16],
        [R.UNSIGNED16, R.INTEGER24, R.UNSIGNED24],
        [R.INTEGER32, R.UNSIGNED32, R.INTEGER40, R.UNSIGNED40, R.REAL32],
        [R.INTEGER48, R.UNSIGNED48, R.INTEGER56, R.UNSIGNED56],
        [R.INTEGER64, R.UNSIGNED64, R.REAL64],
        ["strings"],
    ]
    n_random = 2000 if tier == "quick" else 300000
    return [{"types": g, "n_random": n_random} for g in groups] + [{"retyped": 300 if tier == "quick" else 20000}] + [{"ambient": ["test/test_od.py", "test/test_sdo.py", "test/test_local.py", "test/test_eds.py"]}]


def _var(dt):
    from canopen.objectdictionary import ODVariable
    v = ODVariable("v", 0x2000, 0)
    v.data_type = dt
    return v


def _try(fn, *a):
    try:
        return fn(*a), None
    except Exception as exc:  # noqa: BLE001 - the contract judges; the workload only drives
        return None, exc


def run(ctx, desc):
    oracles.install_codec(ctx)
    if "ambient" in desc:
        from canmon import ambient
        n = ambient.run_tests(ctx, desc["ambient"])
        ctx.sample({"workload": "ambient", "repo_tests_run_under_codec_contracts": n,
                    "contract_evaluations": {k: v for k, v in ctx.monitors.items()}})
        return
    rng = ctx.rng("c04")
    if "retyped" in desc:
        run_retyped(ctx, rng, desc["retyped"])
        return
    for dt in desc["types"]:
        if dt == "strings":
            run_strings(ctx, rng, desc)
            continue
        var = _var(dt)
        name = R.NAMES[dt]
        len(var)
        if dt in R.INTEGERS:
            w = R.INTEGERS[dt]
            lo, hi = R.int_range(dt)
            if w <= 16:
                values = range(lo, hi + 1)
                patterns = (i.to_bytes(w // 8, "little") for i in range(1 << w))
                vclass = "exhaustive"
            else:
                values = R.boundary_ints(dt, rng, desc["n_random"])
                patterns = [bytes(rng.getrandbits(8) for _ in range(w // 8)) for _ in range(desc["n_random"])]
                patterns += [b"\xff" * (w // 8), b"\x00" * (w // 8), b"\x00" * (w // 8 - 1) + b"\x80",
                             b"\xff" * (w // 8 - 1) + b"\x7f", b"\x80" + b"\x00" * (w // 8 - 1)]
                vclass = "boundary+random"
            for v in values:
                enc, exc = _try(var.encode_raw, v)
                ctx.case((name, "encode", vclass), nontrivial=v not in (0, 1))
                if exc is None:
                    dec, exc2 = _try(var.decode_raw, enc)
                    ctx.case((name, "roundtrip", vclass), nontrivial=v not in (0, 1))
                    if exc2 is None and dec != v:
                        ctx.violation(f"roundtrip:{name}", f"decode(encode({v})) = {dec!r}", {"type": name, "value": v})
            for pi, p in enumerate(patterns):
                if pi % 3 == 0:
                    # the library hands bytearrays around (CAN message data, transfer buffers): decoding must not touch them
                    ba = bytearray(p)
                    dec, exc = _try(var.decode_raw, ba)
                    dec2, exc2 = _try(var.decode_raw, ba)
                    ctx.case((name, "decode-pattern-bytearray", vclass))
                    if exc is None and (exc2 is not None or dec2 != dec):
                        ctx.violation(f"decode-not-repeatable:{name}", f"decoding the same bytearray {p.hex()} twice gave {dec!r} then {dec2!r}/{exc2!r}",
                                      {"type": name, "pattern": p})
                dec, exc = _try(var.decode_raw, p)
                ctx.case((name, "decode-pattern", vclass))
                if exc is None:
                    enc, exc2 = _try(var.encode_raw, dec)
                    if exc2 is not None or bytes(enc) != p:
                        ctx.violation(f"pattern-roundtrip:{name}", f"encode(decode({p.hex()})) = {enc!r}/{exc2!r}",
                                      {"type": name, "pattern": p})
            for v in R.out_of_range_ints(dt):
                _try(var.encode_raw, v)
                ctx.case((name, "encode-out-of-range", "above" if v > hi else "below"))
        elif dt == R.BOOLEAN:
            for v in (True, False, 0, 1):
                enc, _ = _try(var.encode_raw, v)
                if enc is not None:
                    _try(var.decode_raw, enc)
                ctx.case((name, "encode", repr(v)))
        else:
            fmt = "<f" if dt == R.REAL32 else "<d"
            nbytes = 4 if dt == R.REAL32 else 8
            vals = list(R.float_specials())
            for _ in range(desc["n_random"] // 4):
                vals.append(struct.unpack(fmt, bytes(rng.getrandbits(8) for _ in range(nbytes)))[0])
                vals.append(rng.uniform(-1e6, 1e6))
            for v in vals:
                if dt == R.REAL32 and v == v and abs(v) != float("inf"):
                    # values that are exactly representable: round through f32 when possible
                    try:
                        v = struct.unpack("<f", struct.pack("<f", v))[0]
                    except OverflowError:
                        pass
                enc, exc = _try(var.encode_raw, v)
                cls = "nan" if v != v else "inf" if abs(v) == float("inf") else "zero" if v == 0 else "finite"
                ctx.case((name, "encode", cls))
                if exc is None:
                    dec, exc2 = _try(var.decode_raw, enc)
                    ctx.case((name, "roundtrip", cls))
                    if exc2 is None and not R.same_float(dec, v):
                        ctx.violation(f"roundtrip:{name}", f"decode(encode({v!r})) = {dec!r}", {"type": name, "value": v})
            if dt == R.REAL32:
                for v in (1e39, -1e39, 3.5e38, 1.7976931348623157e308):
                    _try(var.encode_raw, v)
                    ctx.case((name, "encode-out-of-range", "finite"))
            for _ in range(desc["n_random"] // 4):
                p = bytes(rng.getrandbits(8) for _ in range(nbytes))
                _try(var.decode_raw, p)
                ctx.case((name, "decode-pattern", "random"))
        # a variable that declares limits (EDS LowLimit / HighLimit): they are advisory for the codec - every value of the
        # type still encodes to its bytes (the device decides what to do with it)
        if dt in R.INTEGERS or dt in R.REALS:
            lim = _var(dt)
            if dt in R.INTEGERS:
                lo, hi = R.int_range(dt)
                lim.min, lim.max = (lo // 2 if lo < 0 else hi // 8), hi // 2
                if rng.random() < 0.3:
                    lim.min, lim.max = float(lim.min), float(lim.max)
                probes = [lo, hi, lim.min - 1, lim.max + 1, int(lim.min), int(lim.max), 0, 1]
            else:
                lim.min, lim.max = rng.choice([(-10.5, 10.5), (0, 100), (-1e3, -1.0)])
                probes = [-1e6, 1e6, 0.0, -0.0, 11.25, -11.25, 1e-30, float("inf"), float("-inf"), 100.5, -2000.0]
            for v in probes:
                enc, exc = _try(lim.encode_raw, v)
                ctx.case((name, "encode-with-limits", "below" if v < lim.min else "above" if v > lim.max else "inside"), nontrivial=True)
                if exc is None:
                    dec, exc2 = _try(lim.decode_raw, enc)
                    same = R.same_float(dec, struct.unpack("<f", struct.pack("<f", v))[0] if dt == R.REAL32 else v) if dt in R.REALS else dec == v
                    if exc2 is None and not same:
                        ctx.violation(f"roundtrip:{name}", f"with limits declared decode(encode({v!r})) = {dec!r}", {"type": name, "value": v})
        # wrong-length byte strings 0..9
        right = R.width(dt) // 8
        for n in range(0, 10):
            if n == right:
                continue
            for fill in (b"\x00", b"\xff", b"\x7f", b"\x80", None):
                data = bytes(rng.getrandbits(8) for _ in range(n)) if fill is None else fill * n
                _try(var.decode_raw, data)
                ctx.case((name, "decode-wrong-length", "short" if n < right else "long"))
        ctx.sample({"type": name, "encode(hi)": (_try(var.encode_raw, R.int_range(dt)[1])[0] if dt in R.INTEGERS else None),
                    "len": len(var)})


def run_retyped(ctx, rng, rounds):
    """One ODVariable object whose data type is assigned late and changed between calls (tools that correct or reuse a variable)."""
    from canopen.objectdictionary import ODVariable
    types = sorted(R.NUMERIC) + [R.BOOLEAN]
    for r in range(rounds):
        var = ODVariable("scratch", 0x2000, 0)
        if r % 3 == 0:
            # used before the type is known: whatever that does, it must not stick
            _try(var.encode_raw, 1)
            _try(var.decode_raw, b"\x01")
            _try(len, var)
        prev = None
        for _ in range(6):
            dt = rng.choice(types)
            var.data_type = dt
            name = R.NAMES[dt]
            ctx.case(("retyped", R.NAMES.get(prev, "untyped"), name), nontrivial=prev is not None)
            n = R.width(dt) // 8
            ops = ["len", "enc", "dec", "dec-wrong"]
            rng.shuffle(ops)
            for op in ops:
                if op == "len":
                    _try(len, var)
                elif op == "enc" and dt in R.INTEGERS:
                    lo, hi = R.int_range(dt)
                    for v in (lo, hi, -1 if lo < 0 else hi // 2 + 1, hi + 1, lo - 1):
                        _try(var.encode_raw, v)
                elif op == "enc" and dt in R.REALS:
                    _try(var.encode_raw, 1.5)
                elif op == "dec":
                    for p in (b"\xff" * n, bytes(rng.getrandbits(8) for _ in range(n))):
                        _try(var.decode_raw, p)
                elif op == "dec-wrong":
                    for m in {max(0, n - 1), n + 1, 2, 4} - {n}:
                        _try(var.decode_raw, b"\x12" * m)
            prev = dt
    ctx.sample({"workload": "retyped", "rounds": rounds})


def run_strings(ctx, rng, desc):
    vis, uni = _var(R.VISIBLE_STRING), _var(R.UNICODE_STRING)
    # every ASCII code point alone and inside a string
    for cp in range(128):
        for s in (chr(cp), "a" + chr(cp) + "z"):
            if s.endswith("\x00"):
                continue
            enc, exc = _try(vis.encode_raw, s)
            ctx.case(("VISIBLE_STRING", "roundtrip", f"cp-block-{cp >> 4:x}"), nontrivial=True)
            if exc is None:
                dec, exc2 = _try(vis.decode_raw, enc)
                if exc2 is not None or dec != s:
                    ctx.violation("roundtrip:VISIBLE_STRING", f"{s!r} -> {enc!r} -> {dec!r}/{exc2!r}", {"s": s})
    # the BMP minus surrogates
    step = 1 if desc["n_random"] > 10000 else 7
    for cp in range(1, 0x10000, step):
        if 0xD800 <= cp <= 0xDFFF:
            continue
        s = "x" + chr(cp) + "y"
        enc, exc = _try(uni.encode_raw, s)
        ctx.case(("UNICODE_STRING", "roundtrip", f"cp-block-{cp >> 12:x}"))
        if exc is None:
            dec, exc2 = _try(uni.decode_raw, enc)
            if exc2 is not None or dec != s:
                ctx.violation("roundtrip:UNICODE_STRING", f"{s!r} -> {enc!r} -> {dec!r}/{exc2!r}", {"s": s})
    # code points that codecs treat specially (byte-order marks, non-characters, separators), at every position
    for cp in (0xFEFF, 0xFFFE, 0xFFFF, 0xFFFD, 0xD7FF, 0xE000, 0x0001, 0x007F, 0x0080, 0x00FF, 0x0100, 0x2028, 0x2029, 0x3000, 0x0085):
        for s in (chr(cp) + "ab", "a" + chr(cp) + "b", "ab" + chr(cp), chr(cp), chr(cp) * 2):
            enc, exc = _try(uni.encode_raw, s)
            ctx.case(("UNICODE_STRING", "roundtrip-special", f"{cp:04x}"))
            if exc is None:
                dec, exc2 = _try(uni.decode_raw, enc)
                if exc2 is not None or dec != s:
                    ctx.violation("roundtrip:UNICODE_STRING", f"{s!r} -> {enc!r} -> {dec!r}/{exc2!r}", {"s": s})
    for _ in range(desc["n_random"] // 4):
        n = rng.randint(0, 40)
        s = "".join(chr(rng.randint(1, 127)) for _ in range(n))
        enc, exc = _try(vis.encode_raw, s)
        ctx.case(("VISIBLE_STRING", "roundtrip-random", f"len{min(n, 9)}"), nontrivial=n > 0)
        if exc is None:
            dec, exc2 = _try(vis.decode_raw, enc)
            if exc2 is not None or dec != s:
                ctx.violation("roundtrip:VISIBLE_STRING", f"{s!r} -> {enc!r} -> {dec!r}/{exc2!r}", {"s": s})
        u = "".join(chr(rng.choice([rng.randint(1, 0xD7FF), rng.randint(0xE000, 0xFFFF)])) for _ in range(n))
        enc, exc = _try(uni.encode_raw, u)
        ctx.case(("UNICODE_STRING", "roundtrip-random", f"len{min(n, 9)}"), nontrivial=n > 0)
        if exc is None:
            dec, exc2 = _try(uni.decode_raw, enc)
            if exc2 is not None or dec != u:
                ctx.violation("roundtrip:UNICODE_STRING", f"{u!r} -> {enc!r} -> {dec!r}/{exc2!r}", {"s": u})
    # non-ASCII text must not be accepted as VISIBLE_STRING
    for s in ("é", "abc€", "\x80"):
        _try(vis.encode_raw, s)
        ctx.case(("VISIBLE_STRING", "encode-non-ascii", "rejected"))
    ctx.sample({"visible": "a~z", "unicode": "x€y", "encoded": uni.encode_raw("x€y")})


def replay(ctx, case):
    oracles.install_codec(ctx)
    name = case.get("type")
    dt = {v: k for k, v in R.NAMES.items()}[name]
    var = _var(dt)
    if "value" in case:
        _try(var.encode_raw, case["value"])
    if "data" in case or "pattern" in case:
        _try(var.decode_raw, bytes.fromhex((case.get("data") or case.get("pattern"))[4:]))
    ctx.case(("replay",))
