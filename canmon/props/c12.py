"""C12 - SDO block download delivers exactly the payload or fails visibly.

Real client (open('wb', size=n, block_transfer=True)) <-> reference block server
with a changing block-size sequence; fault plan drops client segments /
server acknowledges.  Oracles: reference server store == payload; the
server's validation of sequence numbers, last flag, end-frame n and CRC;
loss classification (must repair / may fail but never succeed wrongly).
"""
from __future__ import annotations

import random

from canmon import faults, rigs
from canmon.props.c01 import payload

ID = "C12"
LEVEL = "fault_enumeration"
RULE = ("undisturbed: (length, block-size sequence, CRC on/off, write style) with lengths 1..64 exhaustive, 7k+-1, 889k+-1 "
        "and larger; loss: for representative (length, sequence) pairs EVERY single segment position is dropped once, plus "
        "seeded multi-loss patterns and lost acknowledges. Classification from the undisturbed wire log: a lost segment that "
        "is followed by another segment of the same non-final sub-block must be repaired (normal return, payload exact); any "
        "other pattern may fail, but a normal return implies store == payload. Signature = (kind, length class, block "
        "sequence class, crc, loss class); all are non-trivial except single-segment undisturbed transfers.")
ASSUMPTIONS = ["chunked writes go through the default 1024-byte buffer (smaller buffers break chunked block downloads even undisturbed: the raw stream's None-return protocol, API limitation)",
               "reference server has no timers: a lost last segment of a sub-block is undetectable for it (may-fail class)",
               "payload written with a declared size equal to its length"]
REQUIRED = {"undisturbed_compared": 100, "loss_cases": 100, "must_repair_cases": 30, "server_frames_validated": 2000}

SEQS = {"1": [1], "2": [2], "7": [7], "127": [127], "3-5-2": [3, 5, 2], "127-1-64": [127, 1, 64], "10-4": [10, 4], "5": [5]}


def lenclass(n):
    r = n % 7
    return ("1seg" if n <= 7 else "s" if n <= 70 else "m" if n <= 889 else "l") + {0: ":7k", 1: ":7k+1", 6: ":7k-1"}.get(r, ":r")


def plan(tier, seed):
    if tier == "quick":
        lengths = list(range(1, 65)) + [69, 70, 71, 888, 889, 890, 896, 1000]
        loss_pairs = [(100, "5"), (50, "3-5-2"), (23, "2"), (200, "10-4"), (36, "7"), (64, "127"), (2500, "127"), (1200, "10-4")]
        multi = 40
    else:
        lengths = list(range(1, 130)) + [888, 889, 890, 895, 896, 897, 1777, 1778, 1779, 4096, 10000, 20000]
        loss_pairs = [(100, "5"), (50, "3-5-2"), (23, "2"), (200, "10-4"), (36, "7"), (64, "127"), (1000, "127-1-64"),
                      (900, "127"), (15, "1"), (301, "3-5-2"), (77, "10-4"), (500, "7"), (129, "2"), (890, "127"), (889, "127"),
                      (2000, "127-1-64"), (64, "3-5-2"), (350, "5"), (41, "1")]
        multi = 1500
    shards = []
    for i in range(8):
        shards.append({"kind": "undisturbed", "lengths": lengths[i::8], "cs": seed * 100 + i})
    for i, (n, sq) in enumerate(loss_pairs):
        shards.append({"kind": "loss", "n": n, "seq": sq, "multi": multi, "cs": seed * 100 + 50 + i})
    return shards


def make_rig(seqname, crc_support=True, via="listener"):
    return rigs.ClientRig(node_id=9, timeout=0.004, blk_sizes=SEQS[seqname], crc_support=crc_support, via=via)


def do_block_download(rig, c, data):
    sdo = rig.sdo
    style = c.get("style", "whole")
    kw = dict(size=len(data), block_transfer=True, request_crc_support=c.get("crc", True))
    if style == "raw7":
        fp = sdo.open(c["mux"][0], c["mux"][1], "wb", buffering=0, **kw)
        try:
            pos = 0
            while pos < len(data):
                w = fp.write(data[pos:pos + 7])
                if not w:
                    raise RuntimeError(f"raw write returned {w!r}")
                pos += w
        finally:
            fp.close()
    elif style == "chunks":
        rng = random.Random(repr(("c12chunks", c.get("seed"))))
        with sdo.open(c["mux"][0], c["mux"][1], "wb", buffering=c.get("buffering", 1024), **kw) as fp:
            pos = 0
            while pos < len(data):
                k = rng.randint(1, 200)
                fp.write(data[pos:pos + k])
                pos += k
    else:
        with sdo.open(c["mux"][0], c["mux"][1], "wb", **kw) as fp:
            fp.write(data)


def run(ctx, desc):
    if desc["kind"] == "undisturbed":
        run_undisturbed(ctx, desc)
    else:
        run_loss(ctx, desc)


def check_outcome(ctx, rig, c, data, ncommit, nviol, exc, trace, must_succeed):
    srv = rig.server
    mux = tuple(c["mux"])
    new = srv.commits[ncommit:]
    if exc is None:
        if len(new) != 1 or new[0] != (mux, data):
            got = new[0][1].hex() if new else None
            ctx.violation("block-download-success-wrong-data:" + c["kind"],
                          f"block download returned normally but server committed {len(new)} values "
                          f"({got and got[:60]}...) for payload of {len(data)} bytes", c, trace)
            return
    else:
        if new and new[-1] != (mux, data):
            ctx.violation("block-download-failed-but-wrong-commit:" + c["kind"],
                          f"call raised {exc!r} and server committed different data", c, trace)
        if must_succeed:
            ctx.violation("block-download-not-repaired:" + type(exc).__name__,
                          f"loss of one segment inside a non-final sub-block was not repaired: {type(exc).__name__}: {exc}", c, trace)
    if c["kind"] == "undisturbed":
        for mech, msg in srv.violations[nviol:]:
            ctx.violation("wire:" + mech, msg, c, trace)


def run_undisturbed(ctx, desc):
    rng = random.Random(repr(("c12u", desc["cs"])))
    for n in desc["lengths"]:
        for seqname in SEQS:
            for crc_req, crc_sup in ((True, True), (False, True), (True, False)):
                style = rng.choice(["whole", "whole", "raw7", "chunks"])
                backend = rng.choice(["listener", "listener", "notify-reuse", "queued-send"])
                rig = make_rig(seqname, crc_sup, "listener" if backend == "queued-send" else backend)
                if backend == "queued-send":
                    # a driver that queues the message objects it is given and transmits them a moment later from its own
                    # thread (time-outs are irrelevant here: 10 s)
                    rig.station.queued_send = True
                    rig.sdo.RESPONSE_TIMEOUT = 10.0
                c = {"kind": "undisturbed", "n": n, "seq": seqname, "crc": crc_req, "crc_support": crc_sup, "style": style,
                     "seed": rng.randint(0, 1 << 30), "mux": [rng.choice([0x1F50, 0x2000, 0xFFFF]), rng.choice([0, 1, 255])],
                     "backend": backend}
                data = payload(n, c["seed"])
                ctx.case((c["kind"], lenclass(n), seqname, crc_req and crc_sup, style, backend), nontrivial=n > 7)
                exc = None
                try:
                    do_block_download(rig, c, data)
                except Exception as e:  # noqa: BLE001
                    exc = e
                ctx.count("undisturbed_compared")
                trace = rig.wire(30)
                if exc is not None:
                    ctx.violation(f"block-download-raised:{type(exc).__name__}:{style}", f"undisturbed block download raised {exc!r}", c, trace)
                else:
                    check_outcome(ctx, rig, c, data, 0, 0, None, trace, False)
                    if rig.server.state != "idle":
                        ctx.violation("transfer-left-open", f"server state {rig.server.state} after block download", c, trace)
                ctx.count("server_frames_validated", rig.server.frames_seen)
                ctx.add("observed_crc_field_nonzero_without_negotiation", len(rig.server.observations))
                for s in rig.server.steps_seen:
                    ctx.seen("protocol_steps", s)
                if len(ctx.samples) < 3 and n in (8, 15, 22):
                    ctx.sample({"case": c, "wire": trace[:14]})
                rig.close()


def segment_pred(rig):
    return lambda f: f.src == "master" and f.can_id == rig.rx and rig.server.state == "bdl_seg"


def ack_pred(rig):
    return lambda f: f.src == "refserver" and f.can_id == rig.tx and f.data[0] == 0xA2


def run_loss(ctx, desc):
    n, seqname = desc["n"], desc["seq"]
    rng = random.Random(repr(("c12l", desc["cs"])))
    # undisturbed reference run: which sub-block / sequence number each segment frame has
    rig = make_rig(seqname)
    info = []
    state = {"sub": 0}

    def tap(f):
        if f.src == "master" and f.can_id == rig.rx and rig.server.state == "bdl_seg" and f.data[0] != 0x80:
            info.append({"sub": state["sub"], "seq": f.data[0] & 0x7F, "c": f.data[0] >> 7})
        elif f.src == "refserver" and f.data[0] == 0xA2:
            state["sub"] += 1
    rig.bus.taps.append(tap)
    c0 = {"kind": "undisturbed", "n": n, "seq": seqname, "crc": True, "mux": [0x1F50, 1], "seed": desc["cs"]}
    data = payload(n, c0["seed"])
    do_block_download(rig, c0, data)
    rig.close()
    nseg = len(info)
    last_sub = info[-1]["sub"]
    size_of_sub = {}
    for it in info:
        size_of_sub[it["sub"]] = max(size_of_sub.get(it["sub"], 0), it["seq"])
    n_acks = last_sub + 1

    def one(c, plan_factory, must):
        rig = make_rig(seqname, crc_support=not c.get("lenient_server"))
        if c.get("lenient_server"):
            rig.server.check_size = False        # no CRC support, announced size not verified: only correct retransmission saves the data
        rig.bus.fault = plan_factory(rig)
        exc = None
        try:
            do_block_download(rig, c, data)
        except Exception as e:  # noqa: BLE001
            exc = e
        ctx.count("loss_cases")
        if must:
            ctx.count("must_repair_cases")
        plan_ = rig.bus.fault
        fired = getattr(plan_, "fired", None) if not hasattr(plan_, "hits") else bool(plan_.hits)
        if not fired:
            ctx.inconc("fault plan never fired", c)
        else:
            check_outcome(ctx, rig, c, data, 0, 0, exc, rig.wire(40), must)
        ctx.seen("outcomes", f"{c['loss_class']}:{'ok' if exc is None else type(exc).__name__}")
        # ---- the same client and server afterwards: an undisturbed block download must be exact (nothing left behind
        # by the disturbed one: CRC state, queued frames, sequence counters).  A lost server frame arrives late first.
        rig.bus.fault = None
        lost = getattr(plan_, "hit", None)
        if lost is not None and lost.src == "refserver" and exc is not None:
            rig.bus.inject(rig.tx, lost.data, src="refserver")
        if fired and (c.get("k", 0) % 3 == 0 or exc is not None):
            fu = payload(rng.choice([9, 30, 100]), c0["seed"] + 7 + c.get("k", 0))
            fu_case = dict(c, followup=len(fu))
            n0 = len(rig.server.commits)
            if exc is not None:
                # what an application does after a failed transfer before it tries again: abort explicitly (the
                # property does not promise that every failed block download leaves the server idle by itself)
                try:
                    rig.sdo.abort(0x08000000)
                except Exception:  # noqa: BLE001
                    pass
            try:
                do_block_download(rig, dict(c0, style="whole", mux=[0x1F51, 2]), fu)
                ctx.count("followup_block_downloads")
                new = rig.server.commits[n0:]
                if not new or new[-1] != ((0x1F51, 2), fu):
                    ctx.violation("followup-block-download-wrong-data", f"undisturbed block download after ({c['kind']}, outcome {type(exc).__name__ if exc else 'ok'}) committed {new!r}", fu_case, rig.wire(30))
            except Exception as e2:  # noqa: BLE001
                if True:
                    ctx.violation(f"followup-block-download-failed:{type(e2).__name__}", f"undisturbed block download after ({c['kind']} at {c.get('k')}, outcome "
                                  f"{type(exc).__name__ if exc else 'ok'}) raised {e2!r}", fu_case, rig.wire(30))
        rig.close()

    # every single segment position
    for k in range(nseg):
        it = info[k]
        must = it["sub"] != last_sub and it["seq"] < size_of_sub[it["sub"]]
        cls = "mid-nonfinal" if must else "last-of-subblock" if it["sub"] != last_sub else "final-subblock"
        c = dict(c0, kind="loss-segment", k=k, loss_class=cls)
        ctx.case((c["kind"], lenclass(n), seqname, cls, it["seq"] == 1))
        one(c, lambda rig, k=k: faults.OneShot(segment_pred(rig), k, faults.drop), must)
        # the same loss while the caller feeds the stream in small chunks through a small buffer, with and without CRC
        if n > 1100:
            # (payloads beyond the default buffer size, so that the BufferedWriter refills its buffer while sub-blocks
            # are open; smaller buffers make chunked block downloads fail even undisturbed - API limitation, not generated)
            crc = bool(k % 2)
            c = dict(c0, kind="loss-segment", k=k, loss_class=cls, style="chunks", crc=crc)
            ctx.case((c["kind"], lenclass(n), seqname, cls, "chunked", crc))
            one(c, lambda rig, k=k: faults.OneShot(segment_pred(rig), k, faults.drop), must)
    # every lost acknowledge
    for k in range(n_acks):
        c = dict(c0, kind="loss-ack", k=k, loss_class="ack")
        ctx.case((c["kind"], lenclass(n), seqname, "first" if k == 0 else "last" if k == n_acks - 1 else "mid"))
        one(c, lambda rig, k=k: faults.OneShot(ack_pred(rig), k, faults.drop), False)
    # lost initiate / end responses
    for what, pred in (("init", lambda rig: (lambda f: f.src == "refserver" and f.data[0] & 0xE3 == 0xA0)),
                       ("end", lambda rig: (lambda f: f.src == "refserver" and f.data[0] == 0xA1))):
        c = dict(c0, kind="loss-" + what, loss_class=what)
        ctx.case((c["kind"], lenclass(n), seqname))
        one(c, lambda rig, pred=pred: faults.OneShot(pred(rig), 0, faults.drop), False)
    # seeded multi-loss
    for j in range(desc["multi"]):
        ks = sorted(rng.sample(range(nseg + 3), min(rng.randint(2, 4), nseg)))
        c = dict(c0, kind="loss-multi", ks=ks, loss_class="multi", lenient_server=bool(j % 2))
        ctx.case((c["kind"], lenclass(n), seqname, len(ks), c["lenient_server"]))
        one(c, lambda rig, ks=ks: faults.Multi(segment_pred(rig), ks, faults.drop), False)
    # duplicated segments must be harmless
    for k in range(0, nseg, max(1, nseg // 12)):
        c = dict(c0, kind="dup-segment", k=k, loss_class="dup")
        ctx.case((c["kind"], lenclass(n), seqname))
        # a duplicated frame is not a loss pattern the property speaks about: safety oracle only
        one(c, lambda rig, k=k: faults.OneShot(segment_pred(rig), k, faults.duplicate), False)
    ctx.sample({"loss_run": {"n": n, "seq": seqname, "segments": nseg, "subblocks": n_acks,
                             "first_segments": info[:8]}})


def replay(ctx, case):
    if case["kind"] == "undisturbed":
        rig = make_rig(case["seq"], case.get("crc_support", True), case.get("backend", "listener"))
        data = payload(case["n"], case["seed"])
        exc = None
        try:
            do_block_download(rig, case, data)
        except Exception as e:  # noqa: BLE001
            exc = e
            ctx.violation(f"block-download-raised:{type(exc).__name__}:{case.get('style')}", repr(exc), case, rig.wire(30))
        if exc is None:
            check_outcome(ctx, rig, case, data, 0, 0, None, rig.wire(30), False)
        ctx.case(("replay",))
        return
    run_loss(ctx, {"n": case["n"], "seq": case["seq"], "multi": 0, "cs": case["seed"]})
