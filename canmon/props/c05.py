"""C05 - PDO variables occupy exactly their mapped bits.

Deciding oracle: ref.pdo_bits applied through record-only contracts on
PdoVariable.get_data / set_data with an OLD snapshot of PdoMap.data
(canmon.oracles.install_pdo_bits), plus typed read-back and frame-length checks
made by the workload at the API (PdoVariable.raw, PdoMap.data).
"""
from __future__ import annotations

from canmon import gen, oracles
from canmon.ref import codec as R
from canmon.ref import pdo_bits as PB

ID = "C05"
LEVEL = "exploration"
RULE = ("cases = one write of one value into one field of one generated layout (1..8 objects, <= 64 bits) on one initial "
        "frame, followed by a read of every field; every bit offset 0..63 x type class is forced to occur; all 2^len values "
        "for fields up to 8 bits (quick) / 12 bits (thorough), boundary + random above; initial frames all-zero, all-one, "
        "random. Signature = (type, offset mod 8, aligned?, full/partial length, value class, initial frame class); "
        "non-trivial = frame has more than one field or the offset is non-zero.")
RULE += (" " + 'Widened later: a fourth initial frame arriving through on_message, mappings learnt via read() including record members, a failed read() half-way, and a structure contract on PdoMap (offsets back to back, length, buffer size) evaluated whenever read/add_variable return or raise.')
ASSUMPTIONS = ["REAL fields are mapped at full length only", "BOOLEAN mapped as one bit",
               "sub-byte lengths only for BOOLEAN/INTEGER8/UNSIGNED8 (as the property states)"]
REQUIRED = {"pdo_bits.get": 2000, "pdo_bits.set": 1000}


def plan(tier, seed):
    n = 16
    per = 40 if tier == "quick" else 1500
    return [{"layouts": per, "maxbits": 8 if tier == "quick" else 12, "part": i, "parts": n} for i in range(n)] + \
        [{"ambient": ["test/test_pdo.py", "test/test_local.py"]}]


def build_map(node, fields, via="add_variable"):
    pmap = node.tpdo[1]
    if via == "read":
        # the mapping as a device / DCF describes it: mapping words index<<16 | sub<<8 | bit length, decoded by PdoMap.read()
        od = node.object_dictionary
        od[0x1800][1].value, od[0x1800][2].value = 0x181, 1
        od[0x1A00][0].value = len(fields)
        for i, (dt, ln) in enumerate(fields, start=1):
            if (dt + ln + i) % 2:
                # a member of the typed record: its sub-index has nothing to do with its place in the mapping
                od[0x1A00][i].value = 0x2100 << 16 | (list(R.NAMES).index(dt) + 1) << 8 | ln
            else:
                od[0x1A00][i].value = (gen.TYPE_INDEX_BASE + dt) << 16 | ln
        pmap.read(from_od=True)
        return pmap
    pmap.clear()
    for dt, ln in fields:
        full = R.width(dt)
        length = None if ln == full and dt != R.BOOLEAN else ln
        if via == "by-name":
            # the same objects addressed by name: a record member ("Typed record" / "M_<TYPE>") or a top-level variable
            if (dt + ln) % 2:
                pmap.add_variable("Typed record", "M_" + R.NAMES[dt], length)
            else:
                pmap.add_variable("V_" + R.NAMES[dt], 0, length)
        else:
            pmap.add_variable(gen.TYPE_INDEX_BASE + dt, 0, length)
    return pmap


def field_values(rng, dt, ln, maxbits):
    if dt in R.REALS:
        return [0.0, -1.5, 1e-3, 3.0e38 if dt == R.REAL32 else 1e300, float("inf"), rng.uniform(-1e3, 1e3)]
    if dt == R.BOOLEAN:
        return [0, 1]
    signed = dt in R.SIGNED
    lo, hi = (-(1 << (ln - 1)), (1 << (ln - 1)) - 1) if signed else (0, (1 << ln) - 1)
    if ln <= maxbits:
        vals = list(range(lo, hi + 1))
    else:
        vals = sorted({lo, lo + 1, -1 if signed else hi, 0, 1, hi - 1, hi, hi >> 1, (hi >> 1) + 1,
                       rng.randint(lo, hi), rng.randint(lo, hi), rng.randint(lo, hi)})
    # values of the *type* that exceed a partial field: only the low bits may land in the frame
    if ln < R.width(dt):
        tlo, thi = R.int_range(dt)
        vals += [thi, tlo, rng.randint(tlo, thi)]
    return vals


def vclass(dt, ln, v):
    if dt in R.REALS:
        return "real"
    if dt == R.BOOLEAN:
        return "bool"
    if dt in R.SIGNED:
        if v == -(1 << (ln - 1)):
            return "most-negative"
        return "neg" if v < 0 else "nonneg"
    return "nonneg"


def run(ctx, desc):
    import canopen
    oracles.install_pdo_bits(ctx)
    oracles.install_pdo_structure(ctx)
    oracles.install_codec(ctx, prefix="ambient_codec")
    if "ambient" in desc:
        from canmon import ambient
        n = ambient.run_tests(ctx, desc["ambient"])
        ctx.sample({"workload": "ambient", "repo_tests_run_under_pdo_contracts": n,
                    "contract_evaluations": {k: v for k, v in ctx.monitors.items()}})
        return
    od = gen.typed_od()
    node = canopen.RemoteNode(1, od)
    from canmon import simbus
    net, _st = simbus.make_network(simbus.SimBus(mode="inline"), "net")
    net.add_node(node)               # PdoMap.read() subscribes the map
    rng = ctx.rng("c05")
    layouts = []
    # forced (offset, type) coverage: this shard takes offsets congruent to its part
    for off in range(64):
        if off % desc["parts"] != desc["part"]:
            continue
        for dt in gen.PDO_FIELD_TYPES:
            choices = [1] if dt == R.BOOLEAN else [R.width(dt)]
            if dt in (R.INTEGER8, R.UNSIGNED8):
                choices = [rng.randint(1, 7), 8]
            for ln in choices:
                if off + ln <= 64:
                    layouts.append(gen.random_layout(rng, (off, dt, ln)))
    for _ in range(desc["layouts"]):
        layouts.append(gen.random_layout(rng))
    for li, fields in enumerate(layouts):
        run_layout(ctx, rng, node, fields, desc["maxbits"], via=("add_variable", "by-name", "read")[li % 3])
        if li % 9 == 8 and len(fields) > 1:
            failed_read(ctx, rng, node, fields)


def failed_read(ctx, rng, node, fields):
    """A (re-)read of the mapping that fails half-way (here: a dictionary whose k-th mapping entry has no value; on a live
    device an SDO abort) must leave a map that is still a map: the structure contract judges what is left behind, and
    the variables that are left read and write their own bits."""
    pmap = node.tpdo[1]
    od = node.object_dictionary
    k = rng.randint(2, len(fields))
    od[0x1800][1].value, od[0x1800][2].value = 0x181, 1
    od[0x1A00][0].value = len(fields)
    for i, (dt, ln) in enumerate(fields, start=1):
        od[0x1A00][i].value = (gen.TYPE_INDEX_BASE + dt) << 16 | ln
    saved = (od[0x1A00][k].value, od[0x1A00][k].default)
    od[0x1A00][k].value = od[0x1A00][k].default = None
    ctx.case(("failed-read", len(fields), k), nontrivial=True)
    try:
        pmap.read(from_od=True)
        ctx.violation("pdo-read-accepted-missing-entry", f"read(from_od=True) returned although mapping entry {k} has no value", {"fields": len(fields), "k": k})
    except Exception:  # noqa: BLE001 - expected; what it leaves behind is judged by the structure contract
        pass
    od[0x1A00][k].value, od[0x1A00][k].default = saved
    for var in pmap.map:
        try:
            v = var.raw
            var.raw = v
        except Exception as exc:  # noqa: BLE001
            ctx.violation(f"pdo-variable-unusable-after-failed-read:{type(exc).__name__}", f"after a failed read() variable {var.name} raised {exc!r}",
                          {"fields": len(fields), "k": k})
            break


def run_layout(ctx, rng, node, fields, maxbits, only=None, via="add_variable"):
    pmap = build_map(node, fields, via)
    total = sum(ln for _, ln in fields)
    nbytes = (total + 7) // 8
    case0 = {"fields": [(R.NAMES[dt], ln) for dt, ln in fields], "via": via}
    # the node-level accessors reach the same variables (looked up afresh after every re-mapping)
    names = [v.name for v in pmap.map]
    for var in pmap.map:
        if names.count(var.name) == 1:
            ctx.count("node_level_lookups")
            if node.tpdo[var.name] is not var or node.pdo[var.name] is not var:
                ctx.violation("pdo-node-level-lookup-stale", f"node.tpdo[{var.name!r}] is not the variable of the current mapping", case0)
    if len(pmap.map) != len(fields) or len(pmap.data) != nbytes:
        ctx.violation("pdo-frame-length", f"map of {total} bits has {len(pmap.data)} data bytes / {len(pmap.map)} vars", case0)
        return
    offs = []
    o = 0
    for (dt, ln), var in zip(fields, pmap.map):
        if var.offset != o or var.length != ln:
            ctx.violation("pdo-offset-assignment", f"field {R.NAMES[dt]}/{ln} got offset {var.offset} length {var.length}, expected {o}/{ln}", case0)
            return
        offs.append(o)
        o += ln
    inits = [bytes(nbytes), b"\xff" * nbytes, bytes(rng.getrandbits(8) for _ in range(nbytes))]
    for i, ((dt, ln), var) in enumerate(zip(fields, pmap.map)):
        if only is not None and i != only:
            continue
        ctx.seen("offset_x_type", f"{offs[i]:02d}:{'s' if dt in R.SIGNED else 'u' if dt in R.UNSIGNED else 'b' if dt == R.BOOLEAN else 'r'}")
        for v in field_values(rng, dt, ln, maxbits):
            for k, init in enumerate(inits + [inits[rng.randrange(3)]]):
                if k < 3:
                    pmap.data = bytearray(init)
                else:
                    # the frame content arrives the way frames do: through the reception handler
                    pmap.on_message(pmap.cob_id, bytearray(init), 1.0 + k)
                    if bytes(pmap.data) != init:
                        ctx.violation("pdo-received-frame-not-stored", f"on_message({init.hex()}) left map data {bytes(pmap.data).hex()}", dict(case0, init=init))
                        continue
                case = dict(case0, field=i, value=v, init=init, arrived="assigned" if k < 3 else "received")
                sig = (R.NAMES[dt], offs[i] % 8, offs[i] % 8 == 0, "full" if ln == R.width(dt) else "partial",
                       vclass(dt, ln, v), ("zero", "ones", "random", "received")[k])
                ctx.case(sig, nontrivial=len(fields) > 1 or offs[i] > 0)
                try:
                    var.raw = v
                except Exception:  # noqa: BLE001 - judged by the set_data contract
                    continue
                if len(pmap.data) != nbytes:
                    ctx.violation("pdo-frame-length", f"frame length changed to {len(pmap.data)} (expected {nbytes})", case)
                    continue
                # typed read-back of every field against the reference, from the frame as it is now
                frame = bytes(pmap.data)
                for j, ((dt2, ln2), var2) in enumerate(zip(fields, pmap.map)):
                    try:
                        got = var2.raw
                    except Exception:  # noqa: BLE001 - judged by the get_data contract
                        continue
                    want = PB.field_value(PB.read_field(frame, offs[j], ln2), dt2, ln2)
                    if dt2 in R.REALS:
                        ok = isinstance(got, float) and R.same_float(got, want)
                    else:
                        ok = int(got) == want
                    ctx.count("typed_readback")
                    if not ok:
                        ctx.violation(oracles.pdo_mechanism("typed-read", dt2, offs[j], ln2, vclass(dt2, ln2, want) if dt2 not in R.REALS else "real"),
                                      f"field {j} ({R.NAMES[dt2]} @{offs[j]}+{ln2}) reads {got!r}, frame {frame.hex()} holds {want!r}", case)
        if len(ctx.samples) < 4:
            ctx.sample({"layout": case0["fields"], "field": i, "offset": offs[i], "frame_after_last_write": bytes(pmap.data)})


def replay(ctx, case):
    import canopen
    oracles.install_pdo_bits(ctx)
    oracles.install_pdo_structure(ctx)
    inv = {v: k for k, v in R.NAMES.items()}
    fields = [(inv[n], ln) for n, ln in case["fields"]]
    node = canopen.RemoteNode(1, gen.typed_od())
    from canmon import simbus
    simbus.make_network(simbus.SimBus(mode="inline"), "net")[0].add_node(node)
    run_layout(ctx, ctx.rng("replay"), node, fields, 8, only=case.get("field"), via=case.get("via", "add_variable"))
