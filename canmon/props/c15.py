"""C15 - a PDO value set by the producer is the value the consumer reads.

Producer node and consumer node (all four Local/Remote pairings) on two
stations with the same generated mapping; several consumer maps with distinct
and colliding COB-IDs.  Oracles: frame on the wire == (COB-ID, bytes(map.data));
after delivery the consumer's variables read the produced values and the frame's
timestamp; only maps subscribed to that COB-ID changed; every callback once;
RTR frame iff enabled and allowed; waiter woken (instrumented condition).
"""
from __future__ import annotations

import random
import time

from canmon import gen, oracles, rigs, simbus, waits
from canmon.props.c05 import field_values
from canmon.ref import codec as R
from canmon.ref import pdo_bits as PB

ID = "C15"
LEVEL = "exploration"
RULE = ("histories over (pairing of node kinds, generated layout as in C05, consumer maps with distinct / colliding COB-IDs): "
        "assign values on the producer, transmit once or from a periodic task (tick), reconfigure both sides, remote "
        "requests; reception inline and from a dispatcher thread while another thread waits in wait_for_reception. "
        "Signature = (pairing, operation, layout class, collision class); non-trivial = layout has an unaligned or sub-byte "
        "field or more than one consumer map listens to the COB-ID.")
RULE += (" " + "Widened later: answer on the same COB-ID by a map that has received, configuration flags learnt via read(), node-level lookups after re-mapping, frames with equal / zero time stamps through the listener, arrival race under schedule control (receiver held at the map's lock).")
ASSUMPTIONS = ["a map with a running periodic task ignores reception (by design); the consumer never starts one",
               "the consumer does not write into received maps (maps sharing a COB-ID share the received buffer)",
               "without a frame wait_for_reception returns None after its (20 ms) time-out"]
REQUIRED = {"transmissions_checked": 300, "consumer_values_compared": 1000, "wait_cases": 10, "rtr_checks": 30}
K = 4


def plan(tier, seed):
    n = 8
    shards = [{"kind": "histories", "count": 30 if tier == "quick" else 1500, "length": 25 if tier == "quick" else 80,
               "cs": seed * 100 + i} for i in range(n)]
    shards.append({"kind": "waits", "rounds": 8 if tier == "quick" else 60, "cs": seed})
    return shards


def od_factory():
    return gen.typed_od(rpdos=(1, 2, 3), tpdos=(1, 2, 3))


def make_node(kind, net):
    import canopen
    node = canopen.LocalNode(K, od_factory()) if kind == "local" else canopen.RemoteNode(K, od_factory())
    net.add_node(node) if kind == "remote" else net.create_node(node)
    return node


def configure(pmap, fields, cob, enabled=True, rtr=True):
    pmap.clear()
    for dt, ln in fields:
        full = R.width(dt)
        pmap.add_variable(gen.TYPE_INDEX_BASE + dt, 0, None if ln == full and dt != R.BOOLEAN else ln)
    pmap.cob_id = cob
    pmap.enabled = enabled
    pmap.rtr_allowed = rtr


def layout_class(fields):
    off, cls = 0, "aligned"
    for dt, ln in fields:
        if off % 8 or ln % 8:
            cls = "unaligned"
        off += ln
    return cls


def history(ctx, rng, desc, hid):
    pk, ck = rng.choice([("local", "remote"), ("remote", "local"), ("local", "local"), ("remote", "remote")])
    bus = simbus.SimBus(mode="inline")
    pnet, pst = simbus.make_network(bus, "producer")
    cnet, cst = simbus.make_network(bus, "consumer")
    prod, cons = make_node(pk, pnet), make_node(ck, cnet)
    pm = prod.tpdo[1] if pk == "local" else prod.rpdo[1]
    cmaps = {"A": cons.tpdo[1], "B": cons.tpdo[2], "C": cons.rpdo[1], "D": cons.rpdo[2]}
    cob = rng.choice([0x180 + K, 0x200 + K, 0x3FF, 0x1234567])
    other_cob = cob + 0x100
    fdt = rng.choice([R.INTEGER8, R.UNSIGNED16, R.INTEGER32, R.UNSIGNED8])
    fields = gen.random_layout(rng, rng.choice([None, (rng.randrange(1, 32), fdt, R.width(fdt))]))
    # B collides with A on the same COB-ID (same layout); C listens elsewhere; D is disabled on the same COB-ID
    collide = rng.random() < 0.5
    configure(pm, fields, cob)
    configure(cmaps["A"], fields, cob)
    configure(cmaps["B"], fields, cob if collide else other_cob)
    configure(cmaps["C"], [(R.UNSIGNED32, 32)], other_cob + 0x10)
    configure(cmaps["D"], fields, cob, enabled=False)
    cb_log = []
    for name, m in cmaps.items():
        m.subscribe()
        for j in range(2):
            m.add_callback(lambda mp, name=name, j=j: cb_log.append((name, j, mp is cmaps[name])))
    pm.subscribe()
    listeners = ["A", "B"] if collide else ["A"]
    ops = []
    assigned = {}
    lcls = layout_class(fields)

    def case():
        return {"history": hid, "pairing": f"{pk}->{ck}", "fields": [(R.NAMES[d], ln) for d, ln in fields], "cob": cob, "ops": ops[-10:]}

    def check_delivery(frame_ts, how):
        """After one produced frame was delivered."""
        ctx.count("transmissions_checked")
        frame = bytes(pm.data)
        off = 0
        for i, (dt, ln) in enumerate(fields):
            want = PB.field_value(PB.read_field(frame, off, ln), dt, ln)
            for name in listeners:
                cm = cmaps[name]
                ctx.count("consumer_values_compared")
                try:
                    got = cm[i].raw
                    got_p = pm[i].raw
                except Exception as exc:  # noqa: BLE001
                    ctx.violation(f"consumer-read-raised:{type(exc).__name__}", f"reading field {i} raised {exc!r}", case())
                    continue
                same = R.same_float(got, want) if dt in R.REALS else int(got) == want
                same_p = R.same_float(got, got_p) if dt in R.REALS else got == got_p
                if not same or not same_p:
                    ctx.violation(f"consumer-value-mismatch:{lcls}", f"map {name} field {i} ({R.NAMES[dt]}@{off}+{ln}) reads {got!r}, producer holds {got_p!r}, frame {frame.hex()} holds {want!r}", case())
            off += ln
        # the node-level accessors (node.tpdo[name], node.pdo[name]) reach the variables of the *current* mapping
        amap = cmaps["A"]          # = consumer.tpdo[1]: the first map a node-level lookup searches
        a_names = [v.name for v in amap.map]
        for i, var in enumerate(amap.map):
            if a_names.count(var.name) == 1:
                ctx.count("node_level_lookups")
                try:
                    via_node = cons.tpdo[var.name]
                    if via_node is not var:
                        ctx.violation("pdo-node-level-lookup-stale", f"consumer.tpdo[{var.name!r}] is not the variable of map A's current mapping "
                                      f"(reads {via_node.raw!r}, the map's variable reads {var.raw!r})", case())
                        break
                except Exception as exc:  # noqa: BLE001
                    ctx.violation(f"pdo-node-level-lookup-raised:{type(exc).__name__}", f"consumer.tpdo[{var.name!r}] raised {exc!r}", case())
                    break
        for name, cm in cmaps.items():
            if name in listeners:
                if cm.timestamp != frame_ts:
                    ctx.violation("consumer-timestamp", f"map {name}.timestamp = {cm.timestamp!r}, frame timestamp {frame_ts!r}", case())
                if bytes(cm.data) != frame:
                    ctx.violation("consumer-data-mismatch", f"map {name}.data = {bytes(cm.data).hex()}, frame {frame.hex()}", case())
        want_cb = sorted((n, j, True) for n in listeners for j in range(2))
        if sorted(cb_log) != want_cb:
            ctx.violation("callbacks-mismatch", f"callbacks invoked {sorted(cb_log)}, expected {want_cb} ({how})", case())

    snapshot = lambda: {n: (bytes(m.data), m.timestamp) for n, m in cmaps.items()}  # noqa: E731
    for step in range(desc["length"]):
        r = rng.random()
        try:
            if r < 0.35:
                i = rng.randrange(len(fields))
                dt, ln = fields[i]
                v = rng.choice(field_values(rng, dt, ln, 4)[:40])
                if ln < R.width(dt) and dt in R.INTEGERS and not (R.int_range(dt)[0] <= v <= R.int_range(dt)[1]):
                    continue
                ops.append(("assign", i, v))
                pm[i].raw = v
                assigned[i] = v
                ctx.case((f"{pk}->{ck}", "assign", lcls), nontrivial=lcls == "unaligned")
            elif r < 0.65:
                ops.append(("transmit",))
                before = snapshot()
                del cb_log[:]
                mark = len(bus.log)
                pm.transmit()
                sent = [f for f in list(bus.log)[mark:] if f.src == "producer"]
                ctx.case((f"{pk}->{ck}", "transmit", lcls, "collide" if collide else "distinct"), nontrivial=lcls == "unaligned" or collide)
                if len(sent) != 1 or sent[0].can_id != cob or sent[0].data != bytes(pm.data) or sent[0].rtr or sent[0].ext != (cob > 0x7FF):
                    ctx.violation("transmit-frame", f"transmit() put {[f.brief() for f in sent]} on the bus, expected {cob:#x} [{bytes(pm.data).hex()}]", case())
                    continue
                check_delivery(sent[0].ts, "transmit")
                after = snapshot()
                for n in cmaps:
                    if n not in listeners and after[n] != before[n]:
                        ctx.violation("unsubscribed-map-changed", f"map {n} (not listening to {cob:#x}{' / disabled' if n == 'D' else ''}) changed: {before[n]} -> {after[n]}", case())
            elif r < 0.75:
                ops.append(("periodic",))
                del cb_log[:]
                before = snapshot()
                pm.start(0.1)
                mark = len(bus.log)
                bus.tick()
                sent = [f for f in list(bus.log)[mark:] if f.src == "producer"]
                pm.stop()
                ctx.case((f"{pk}->{ck}", "periodic", lcls, "collide" if collide else "distinct"), nontrivial=True)
                if len(sent) != 1 or sent[0].can_id != cob or sent[0].data != bytes(pm.data):
                    ctx.violation("periodic-frame", f"one period sent {[f.brief() for f in sent]}, expected {cob:#x} [{bytes(pm.data).hex()}]", case())
                    continue
                check_delivery(sent[0].ts, "periodic")
                after = snapshot()
                for n in cmaps:
                    if n not in listeners and after[n] != before[n]:
                        ctx.violation("unsubscribed-map-changed", f"map {n} changed on a frame for {cob:#x}", case())
            elif r < 0.85:
                # remote request from the consumer side
                name = rng.choice(["A", "D", "C"])
                cm = cmaps[name]
                cm.rtr_allowed = rng.random() < 0.6
                if name == "C" and rng.random() < 0.6:
                    # the configuration is learnt from the dictionary / device: COB-ID word with bit 31 (invalid) and bit 30 (no RTR)
                    allowed, enabled = rng.random() < 0.5, rng.random() < 0.7
                    od_c = cons.object_dictionary
                    od_c[0x1400][1].value = (other_cob + 0x10) | (0 if allowed else 1 << 30) | (0 if enabled else 1 << 31)
                    od_c[0x1400][2].value = 255
                    od_c[0x1600][0].value = 1
                    od_c[0x1600][1].value = (gen.TYPE_INDEX_BASE + R.UNSIGNED32) << 16 | 32
                    cm.read(from_od=True)
                    if (cm.rtr_allowed, cm.enabled, cm.cob_id) != (allowed, enabled, other_cob + 0x10):
                        ctx.violation("configuration-read-flags", f"COB-ID word {od_c[0x1400][1].value:#x} read as cob {cm.cob_id:#x} enabled={cm.enabled} rtr_allowed={cm.rtr_allowed}", case())
                    cm.rtr_allowed, cm.enabled = cm.rtr_allowed, cm.enabled
                    if enabled:
                        # a map that learnt its configuration by read() still has the callbacks registered before
                        del cb_log[:]
                        pnet.send_message(other_cob + 0x10, bytes(rng.getrandbits(8) for _ in range(4)))
                        if sorted(cb_log) != [("C", 0, True), ("C", 1, True)]:
                            ctx.violation("callbacks-mismatch:after-read", f"a frame for map C (re-configured by read()) invoked {sorted(cb_log)}, "
                                          "expected its two callbacks once each", case())
                        del cb_log[:]
                    want_rtr = allowed and enabled
                    ops.append(("remote_request-after-read", name, enabled, allowed))
                    mark = len(bus.log)
                    cm.remote_request()
                    sent = [f for f in list(bus.log)[mark:] if f.src == "consumer"]
                    ctx.count("rtr_checks")
                    ctx.case((f"{pk}->{ck}", "rtr-after-read", enabled, allowed), nontrivial=True)
                    if want_rtr and (len(sent) != 1 or not sent[0].rtr or sent[0].can_id != other_cob + 0x10):
                        ctx.violation("rtr-not-sent", f"remote_request() on a map read as enabled with RTR allowed sent {[f.brief() for f in sent]}", case())
                    if not want_rtr and sent:
                        ctx.violation("rtr-sent-when-not-allowed", f"remote_request() on a map whose COB-ID word says enabled={enabled} RTR allowed={allowed} sent {[f.brief() for f in sent]}", case())
                    continue
                ops.append(("remote_request", name, cm.enabled, cm.rtr_allowed))
                mark = len(bus.log)
                pm_before = (bytes(pm.data), pm.timestamp)
                cm.remote_request()
                sent = [f for f in list(bus.log)[mark:] if f.src == "consumer"]
                if (bytes(pm.data), pm.timestamp) != pm_before:
                    ctx.violation("remote-frame-changed-producer-map", f"the remote request changed the producer's subscribed map: {pm_before} -> {(bytes(pm.data), pm.timestamp)}", case())
                ctx.count("rtr_checks")
                ctx.case((f"{pk}->{ck}", "rtr", cm.enabled, cm.rtr_allowed), nontrivial=True)
                if cm.enabled and cm.rtr_allowed:
                    if len(sent) != 1 or not sent[0].rtr or sent[0].can_id != cm.cob_id:
                        ctx.violation("rtr-not-sent", f"remote_request() on an enabled map that allows RTR sent {[f.brief() for f in sent]}", case())
                elif sent:
                    ctx.violation("rtr-sent-when-not-allowed", f"remote_request() on enabled={cm.enabled} rtr_allowed={cm.rtr_allowed} sent {[f.brief() for f in sent]}", case())
            elif r < 0.88 and collide and "B" in listeners:
                # map B moves to another COB-ID: frames on the old one are no longer its business
                ops.append(("readdress", "B"))
                cmaps["B"].cob_id = other_cob + 0x20
                cmaps["B"].subscribe()
                listeners.remove("B")
                ctx.case((f"{pk}->{ck}", "readdress"), nontrivial=True)
            elif r < 0.90:
                # subscribing a map again (as read() followed by save() does) must not duplicate delivery
                name = rng.choice(["A", "B", "C", "D"])
                ops.append(("resubscribe", name))
                cmaps[name].subscribe()
                ctx.case((f"{pk}->{ck}", "resubscribe", cmaps[name].enabled), nontrivial=True)
            elif r < 0.915 and not collide:
                # the answer comes back on the same COB-ID: map A, which has been receiving, now produces and the
                # (subscribed) producer map receives.  Writing into a map that holds a received frame is ordinary use.
                i = rng.randrange(len(fields))
                dt, ln = fields[i]
                v = rng.choice(field_values(rng, dt, ln, 4)[:40])
                if ln < R.width(dt) and dt in R.INTEGERS and not (R.int_range(dt)[0] <= v <= R.int_range(dt)[1]):
                    continue
                ops.append(("answer-on-same-cob", i, v))
                am = cmaps["A"]
                before_other = {n: (bytes(m.data), m.timestamp) for n, m in cmaps.items() if n != "A"}
                am[i].raw = v
                mark = len(bus.log)
                am.transmit()
                sent = [f for f in list(bus.log)[mark:] if f.src == "consumer"]
                ctx.count("transmissions_checked")
                ctx.case((f"{pk}->{ck}", "answer-on-same-cob", lcls), nontrivial=True)
                if len(sent) != 1 or sent[0].can_id != cob or sent[0].data != bytes(am.data) or sent[0].rtr:
                    ctx.violation("transmit-frame", f"transmit() on a map that had received put {[f.brief() for f in sent]} on the bus, expected {cob:#x} [{bytes(am.data).hex()}]", case())
                    continue
                want = PB.field_value(PB.read_field(bytes(am.data), sum(l for _, l in fields[:i]), ln), dt, ln)
                got = pm[i].raw
                ctx.count("consumer_values_compared")
                if bytes(pm.data) != bytes(am.data) or pm.timestamp != sent[0].ts or not (R.same_float(got, want) if dt in R.REALS else int(got) == want):
                    ctx.violation("consumer-value-mismatch:answer", f"the subscribed map on the other side holds {bytes(pm.data).hex()} ts {pm.timestamp!r} field {i} = {got!r}; frame {sent[0].brief()} holds {want!r}", case())
                if {n: (bytes(m.data), m.timestamp) for n, m in cmaps.items() if n != "A"} != before_other:
                    ctx.violation("unsubscribed-map-changed", "a map of the transmitting node changed while map A transmitted", case())
            elif r < 0.93:
                # unrelated traffic must not touch any map
                before = snapshot()
                del cb_log[:]
                cid = rng.choice([cob ^ 0x1, cob + 0x80, 0x80, 0x700 + K])
                ops.append(("foreign-frame", hex(cid)))
                pnet.send_message(cid, bytes(rng.getrandbits(8) for _ in range(8)))
                ctx.case((f"{pk}->{ck}", "foreign-frame"), nontrivial=True)
                if snapshot() != before or cb_log:
                    ctx.violation("foreign-frame-changed-map", f"frame {cid:#x} changed a map or invoked callbacks {cb_log}", case())
            else:
                fields = gen.random_layout(rng)
                lcls = layout_class(fields)
                ops.append(("reconfigure", [(R.NAMES[d], ln) for d, ln in fields]))
                configure(pm, fields, cob)
                for n in ("A", "B", "D"):
                    configure(cmaps[n], fields, cmaps[n].cob_id, enabled=cmaps[n].enabled)
                assigned.clear()
                ctx.case((f"{pk}->{ck}", "reconfigure", lcls), nontrivial=True)
                # lookups by position, index and name reach the same variable
                for i, var in enumerate(pm.map):
                    by_name = pm[var.name]
                    first_with_index = next(v for v in pm.map if v.index == var.index)
                    if pm[i] is not var or pm[var.index] is not first_with_index or by_name.index != var.index:
                        ctx.violation("pdo-variable-lookup", f"lookup of field {i} by position/index/name disagrees", case())
        except Exception as exc:  # noqa: BLE001
            ctx.violation(f"pdo-operation-raised:{type(exc).__name__}:{ops[-1][0] if ops else '?'}", f"{ops[-1] if ops else '?'} raised {type(exc).__name__}: {exc}", case())
            break
    if len(ctx.samples) < 3:
        ctx.sample({"pairing": f"{pk}->{ck}", "cob": hex(cob), "collide": collide, "fields": [(R.NAMES[d], ln) for d, ln in fields], "ops": ops[:8]})
    bus.close()


def run_waits(ctx, desc):
    rng = random.Random(repr(("c15w", desc["cs"])))
    for rnd in range(desc["rounds"]):
        if sum(ctx.violation_counts.values()) >= 6:
            break               # waits that go wrong cost their full time-out each: a few witnesses are enough
        bus = simbus.SimBus(mode="threaded", seed=desc["cs"] + rnd, max_delay=0.0005)
        pnet, pst = simbus.make_network(bus, "producer")
        cnet, cst = simbus.make_network(bus, "consumer")
        prod, cons = make_node("local", pnet), make_node("remote", cnet)
        pm, cm = prod.tpdo[1], cons.tpdo[1]
        fields = gen.random_layout(rng)
        configure(pm, fields, 0x180 + K)
        configure(cm, fields, 0x180 + K)
        cm.subscribe()
        cond = waits.SignallingCondition()
        cm.receive_condition = cond
        sent = {}

        def deliver():
            pm[0].raw = 1
            mark = len(bus.log)
            pm.transmit()
            sent["ts"] = [f for f in list(bus.log)[mark:] if f.src == "producer"][0].ts
        status, val = waits.run_waiter(lambda: cm.wait_for_reception(40), cond, deliver)
        bus.quiesce()
        ctx.count("wait_cases")
        ctx.case(("wait-reception", layout_class(fields)), nontrivial=True)
        case = {"workload": "waits", "fields": [(R.NAMES[d], ln) for d, ln in fields]}
        if status in ("hung", "never-waited"):
            ctx.inconc(f"wait_for_reception: {status}", case)
        elif status == "not-woken":
            ctx.violation("waiter-not-woken", "the frame was delivered to the consumer but the reader waiting in wait_for_reception() was not woken", case)
        elif status != "returned" or val != sent.get("ts"):
            ctx.violation("wait-for-reception", f"wait_for_reception ended {status} with {val!r}, frame timestamp {sent.get('ts')!r}", case)
        # the frame is being received at the very moment the wait begins (receiver held where it takes the map's lock until
        # the reader is parked): it is processed after the wait began, so the reader gets its timestamp
        race = {}

        def receive_now():
            pm[0].raw = 0
            mark = len(bus.log)
            pm.transmit()
            race["ts"] = [f for f in list(bus.log)[mark:] if f.src == "producer"][0].ts
        bus.quiesce()
        status, val = waits.arrival_race(cond, lambda: (receive_now(), bus.quiesce()), lambda: cm.wait_for_reception(40))
        bus.quiesce()
        ctx.count("wait_cases")
        ctx.case(("wait-reception-arrival-race",), nontrivial=True)
        if status in ("hung", "never-waited", "receiver-never-arrived"):
            ctx.inconc(f"wait_for_reception arrival race: {status}", case)
        elif status != "returned" or val is None or val != race.get("ts"):
            ctx.violation("wait-for-reception-missed-frame-arriving-as-the-wait-begins", f"a frame processed right after the wait had begun: "
                          f"wait_for_reception ended {status} with {val!r}, frame timestamp {race.get('ts')!r}", case)
        # nothing arrives -> None; a frame that arrived before the wait does not count
        status, val = waits.run_waiter(lambda: cm.wait_for_reception(0.02), cond, None)
        ctx.count("wait_cases")
        ctx.case(("wait-reception-timeout",), nontrivial=True)
        if status in ("hung", "never-waited"):
            ctx.inconc(f"wait_for_reception timeout: {status}", case)
        elif status != "returned" or val is not None:
            ctx.violation("wait-for-reception-timeout", f"no frame arrived, wait_for_reception ended {status} with {val!r}", case)
        # a frame that arrived while nobody was waiting is not "the next reception"
        pm[0].raw = 0
        pm.transmit()
        bus.quiesce()
        status, val = waits.run_waiter(lambda: cm.wait_for_reception(0.02), cond, None)
        ctx.count("wait_cases")
        ctx.case(("wait-reception-after-stale",), nontrivial=True)
        if status in ("hung", "never-waited"):
            ctx.inconc(f"wait_for_reception after stale: {status}", case)
        elif status != "returned" or val is not None:
            ctx.violation("wait-for-reception-satisfied-by-earlier-frame", f"a frame arrived before the wait and nothing after; wait_for_reception returned {val!r}", case)
        # an application callback that raises must not keep the waiting reader from being woken
        def bad_callback(m):
            if armed["on"]:
                raise RuntimeError("application callback failed")
        armed = {"on": False}
        cm.add_callback(bad_callback)
        sentb = {}

        def deliver_b():
            armed["on"] = True
            pm[0].raw = 1
            mark = len(bus.log)
            pm.transmit()
            sentb["ts"] = [f for f in list(bus.log)[mark:] if f.src == "producer"][0].ts
        status, val = waits.run_waiter(lambda: cm.wait_for_reception(40), cond, deliver_b)
        bus.quiesce()
        armed["on"] = False
        cm.callbacks.remove(bad_callback)
        ctx.count("wait_cases")
        ctx.case(("wait-reception-raising-callback",), nontrivial=True)
        if status in ("hung", "never-waited"):
            ctx.inconc(f"wait_for_reception with a raising callback: {status}", case)
        elif status == "not-woken":
            ctx.violation("waiter-not-woken:raising-callback", "the frame was received (a callback of the map raised) but the waiting reader was not woken", case)
        elif status != "returned" or val != sentb.get("ts"):
            ctx.violation("wait-for-reception", f"with a raising callback wait_for_reception ended {status} with {val!r}, frame timestamp {sentb.get('ts')!r}", case)
        # interfaces without hardware timestamps (0.0) or with a coarse clock deliver consecutive frames with the same
        # timestamp: the frame that arrives during the wait is still "a reception" and its timestamp is returned
        for same_ts in (0.0, 1234.5):
            raw = bytes(cm.data)
            import can as _can

            def feed(ts=same_ts, raw=raw):
                # through the network's listener, the way a python-can Notifier hands frames over (time stamp and all)
                cnet.listeners[0].on_message_received(_can.Message(arbitration_id=0x180 + K, data=bytearray(raw), timestamp=ts,
                                                                   is_extended_id=False, check=False))
            feed()                                                   # earlier frame, nobody waiting
            status, val = waits.run_waiter(lambda: cm.wait_for_reception(40), cond, feed)
            if status == "returned" and cm.timestamp != same_ts:
                ctx.violation("consumer-timestamp", f"a frame stamped {same_ts!r} left map.timestamp = {cm.timestamp!r}", case)
            ctx.count("wait_cases")
            ctx.case(("wait-reception-same-timestamp", same_ts), nontrivial=True)
            if status in ("hung", "never-waited"):
                ctx.inconc(f"wait_for_reception same timestamp: {status}", case)
            elif status == "not-woken":
                ctx.violation("waiter-not-woken", "a frame with the same timestamp as its predecessor did not wake the reader", case)
            elif status != "returned" or val is None or val != same_ts:
                ctx.violation("wait-for-reception:same-timestamp", f"a frame arrived during the wait carrying the same timestamp {same_ts!r} as the previous one; "
                              f"wait_for_reception ended {status} with {val!r}", case)
        # several readers wait at once: one frame wakes them all
        sent2 = {}

        def deliver2():
            pm[0].raw = 1
            mark = len(bus.log)
            pm.transmit()
            sent2["ts"] = [f for f in list(bus.log)[mark:] if f.src == "producer"][0].ts
        res = waits.run_waiters([lambda: cm.wait_for_reception(40), lambda: cm.wait_for_reception(40)], cond, deliver2)
        bus.quiesce()
        ctx.count("wait_cases")
        ctx.case(("wait-reception-several",), nontrivial=True)
        for i, (status, val) in enumerate(res):
            if status in ("hung", "never-waited"):
                ctx.inconc(f"wait_for_reception several: {status}", case)
            elif status == "not-woken":
                ctx.violation("waiter-not-woken:several-waiters", f"reader {i} of 2 was not woken by the frame", case)
            elif status != "returned" or val != sent2.get("ts"):
                ctx.violation("wait-for-reception", f"reader {i} of 2 ended {status} with {val!r}, frame timestamp {sent2.get('ts')!r}", case)
        # a frame for another COB-ID does not wake the waiter with a timestamp
        status, val = waits.run_waiter(lambda: cm.wait_for_reception(0.05), cond, lambda: (pnet.send_message(0x181 + K, b"\x01\x02"), bus.quiesce()))
        ctx.count("wait_cases")
        ctx.case(("wait-reception-foreign",), nontrivial=True)
        if status in ("hung", "never-waited"):
            ctx.inconc(f"wait_for_reception foreign: {status}", case)
        elif status != "returned" or val is not None:
            ctx.violation("wait-for-reception-foreign-frame", f"a frame on another COB-ID made wait_for_reception return {val!r}", case)
        bus.close()
    ctx.sample({"workload": "waits", "rounds": desc["rounds"]})


def run(ctx, desc):
    rigs.LogCapture()
    oracles.install_pdo_bits(ctx, prefix="ambient_pdo_bits")
    oracles.install_pdo_structure(ctx, prefix="ambient_pdo_structure")
    if desc["kind"] == "waits":
        run_waits(ctx, desc)
        return
    rng = random.Random(repr(("c15", desc["cs"])))
    for h in range(desc["count"]):
        history(ctx, rng, desc, f"{desc['cs']}-{h}")


def replay(ctx, case):
    ctx.case(("replay",))
    ctx.inconc("history witness: re-run the shard with the same seed", case)
