"""C01 - SDO client transfers exactly the caller's bytes in conformant CiA 301 frames.

Real SdoClient (RemoteNode.sdo) <-> strict reference server (ref.sdo_server) on
an inline SimBus.  Deciding oracles: (1) the reference server's validation of
every client frame for the current protocol step (client-side wire monitor),
(2) the bytes committed in the reference server's store vs. the payload, (3) the
bytes returned by upload/read vs. the reference server's value (declared-width
prefix for OD-declared numbers).
"""
from __future__ import annotations

import io
import random

from canmon import gen, rigs
from canmon.ref import codec as R

ID = "C01"
LEVEL = "exploration"
RULE = ("case = one transfer (direction, API path, payload length, size declared?, forced segmentation?, buffering, "
        "chunking of write()/read() calls, server response style, index/sub-index); lengths 0..64 exhaustive in both tiers "
        "(quick: all variants up to 24, sampled variants above), boundary lengths 126..128, 888..890, 1000, 4096, 10000 "
        "in thorough; cases run back-to-back on one client in shuffled order (history). Signature = (direction, path, "
        "length class relative to 4 / 7k boundaries, declared, forced, buffering, chunk class, server style); non-trivial = "
        "at least one segment frame or a boundary length (0, 4, 5, 7k, 7k+-1).")
RULE += (" " + "Widened later: servers that fill upload segments partly or not at all (segment_fill patterns), every third history on a buffer-reusing back end, declared DOMAIN/OCTET_STRING entries under all response styles with values ending in zero bytes, and an 'abandoned transfer' family (time-out at every step of all six transfer kinds, SdoClient.abort()) in which every client abort frame is judged as a request frame (8 bytes, multiplexer of the transfer); uploads of array members (sub-indexes 1, 2, 127, 254, 255 of arrays listing only their first member) are truncated to the element type like declared variables.")
ASSUMPTIONS = ["reference server transcribed from CiA 301 7.2.4; it accepts short non-final segments (legal)",
               "raw (buffering=0) expedited writes are offered whole payloads (API design: a short write returns 0)",
               "declared size always equals the bytes written (anything else is a caller error)"]
REQUIRED = {"server_frames_validated": 2000, "download_store_compared": 300, "upload_bytes_compared": 300, "client_abort_frames_checked": 40}
EXHAUSTIVE = ["payload lengths 0..64 for download() and upload() on every server style"]

BOUNDARY_Q = [27, 28, 29, 34, 35, 36, 62, 63, 64, 126, 127, 128]
BOUNDARY_T = [126, 127, 128, 255, 256, 888, 889, 890, 895, 896, 1000, 4096, 10000, 70000]
FILLS = [[3], [5, 7], [7, 1, 6], [2, 7, 7, 4], [0, 7], [1, 0, 0]]
MUXES = [(0x0001, 0), (0x1000, 0), (0x1018, 1), (0x2000, 0xFF), (0x5FFF, 0xFE), (0xFFFF, 0), (0xFFFF, 0xFF), (0x6040, 0), (0x1F50, 1)]


def lenclass(n):
    if n <= 5:
        return f"={n}"
    r = n % 7
    tag = {0: "7k", 1: "7k+1", 6: "7k-1"}.get(r, "7k+r")
    size = "s" if n <= 14 else "m" if n <= 70 else "l"
    return tag + size


def payload(n, seed):
    rng = random.Random(repr(("payload", n, seed)))
    special = [0x00, 0xFF, 0x80, 0x7F, 0x01]
    return bytes(rng.choice(special) if rng.random() < 0.3 else rng.getrandbits(8) for _ in range(n))


def ascii_payload(n, seed):
    rng = random.Random(repr(("ascii", n, seed)))
    return "".join(chr(rng.randint(32, 126)) for _ in range(n))


def chunking(n, kind, seed):
    if kind == "whole" or n == 0:
        return [n]
    if kind == "ones":
        return [1] * n
    if kind == "sevens":
        return [7] * (n // 7) + ([n % 7] if n % 7 else [])
    if kind == "with-empties":
        # empty write() calls among the others (raw streams pass them on; buffered ones swallow them)
        rng = random.Random(repr(("empties", n, seed)))
        out, left = [0] if rng.random() < 0.5 else [], n
        while left:
            k = rng.randint(1, min(left, 9))
            out += [k] + ([0] if rng.random() < 0.4 else [])
            left -= k
        return out
    if kind == "big":
        out, left = [], n
        while left:
            k = min(left, 9)
            out.append(k)
            left -= k
        return out
    rng = random.Random(repr(("chunks", n, seed)))
    out, left = [], n
    while left:
        k = rng.randint(1, min(left, 12))
        out.append(k)
        left -= k
    return out


def plan(tier, seed):
    lengths = list(range(0, 65)) + (BOUNDARY_Q if tier == "quick" else BOUNDARY_T)
    lengths = sorted(set(lengths))
    shards = 16
    reps = 1 if tier == "quick" else 4
    out = [{"lengths": lengths[i::shards], "full_variants_upto": 24 if tier == "quick" else 130,
            "sampled": 10 if tier == "quick" else 60, "case_seed": seed * 1000 + i + 100 * r} for r in range(reps) for i in range(shards)]
    # transfers the client gives up (time-out, explicit abort()): the abort frame is a request frame like any other
    out += [{"abandon": True, "case_seed": seed * 1000 + r, "kinds": ks}
            for r in range(reps) for ks in (["exp_dl", "seg_dl", "seg_dl_nosize"], ["exp_ul", "seg_ul", "explicit"], ["blk_dl"], ["blk_ul"])]
    return out


def cases(desc):
    rng = random.Random(repr(("c01cases", desc["case_seed"])))
    out = []
    for n in desc["lengths"]:
        full = n <= desc["full_variants_upto"]
        # ---- downloads
        variants = [{"dir": "down", "path": "download", "force": f} for f in (False, True)]
        for declare in (True, False):
            for force in (False, True):
                for buffering in (0, 3, 7, 8, 1024):
                    if buffering == 3 and declare and 1 <= n <= 4 and not force:
                        # an expedited write needs the whole value in one write() (API design: a short
                        # write returns 0, which a BufferedWriter with a smaller buffer retries forever)
                        continue
                    for ck in ("whole", "ones", "sevens", "big", "random") + (("with-empties",) if buffering == 0 else ()):
                        variants.append({"dir": "down", "path": "open", "declare": declare, "force": force,
                                         "buffering": buffering, "chunks": ck})
        for declare in (True, False):
            for buffering in (1, 16):
                variants.append({"dir": "down", "path": "text", "declare": declare, "buffering": buffering})
        for via in ("data", "raw", "write-fn", "var-open", "var-open-nosize"):
            variants.append({"dir": "down", "path": "variable", "via": via})
        for via in ("data", "raw", "read-fn", "var-open"):
            for size_ind, exp_size in ((True, True), (False, True), (False, False)):
                # entries the dictionary declares as DOMAIN / OCTET_STRING: whatever the server indicates, the bytes are the value
                variants.append({"dir": "up", "path": "variable", "via": via,
                                 "style": {"upload_size_indicated": size_ind, "expedited_upload": True, "expedited_size_indicated": exp_size}})
        # ---- uploads
        for size_ind in (True, False):
            for exp in (True, False):
                for exp_size in (True, False):
                    if not exp and not exp_size:
                        continue
                    style = {"upload_size_indicated": size_ind, "expedited_upload": exp, "expedited_size_indicated": exp_size}
                    variants.append({"dir": "up", "path": "upload", "style": style})
                    variants.append({"dir": "up", "path": "upload-declared", "style": style})
                    for buffering in (0, 3, 7, 8, 1024):
                        for rk in ("all", "ones", "random", "readinto", "mixed"):
                            variants.append({"dir": "up", "path": "open", "style": style, "buffering": buffering, "reads": rk})
                    variants.append({"dir": "up", "path": "text", "style": style, "buffering": 16})
        # servers that fill non-final segments only partly (n > 0 with c = 0), down to no data at all in a segment
        for fill in FILLS:
            for size_ind in (True, False):
                style = {"upload_size_indicated": size_ind, "expedited_upload": True, "expedited_size_indicated": True,
                         "segment_fill": fill}
                variants.append({"dir": "up", "path": "upload", "style": style})
                variants.append({"dir": "up", "path": "upload-declared", "style": style})
                for buffering in (0, 3, 8, 1024):
                    for rk in ("all", "random", "readinto", "mixed"):
                        variants.append({"dir": "up", "path": "open", "style": style, "buffering": buffering, "reads": rk})
                variants.append({"dir": "up", "path": "text", "style": style, "buffering": 16})
        if not full:
            keep = [v for v in variants if v["path"] in ("download", "upload", "variable")]
            rest = [v for v in variants if v["path"] not in ("download", "upload", "variable")]
            rng.shuffle(rest)
            variants = keep + rest[:desc["sampled"]]
        for v in variants:
            c = dict(v, n=n, seed=rng.randint(0, 1 << 30))
            c["mux"] = list(rng.choice(MUXES)) if rng.random() < 0.7 else [rng.randint(1, 0xFFFF), rng.randint(0, 255)]
            if v["path"] == "variable":
                # the declared DOMAIN / OCTET_STRING entries of the client's dictionary (top level and record member)
                c["mux"] = list(rng.choice([(gen.TYPE_INDEX_BASE + R.DOMAIN, 0), (gen.TYPE_INDEX_BASE + R.OCTET_STRING, 0),
                                            (0x2100, list(R.NAMES).index(R.DOMAIN) + 1)]))
            while 0x2001 <= c["mux"][0] <= 0x22FF and v["path"] != "variable":
                # these indexes are declared (typed) in the client's dictionary: uploads there are truncated to the
                # declared width, which is what the "upload-declared" path checks on purpose
                c["mux"][0] = rng.randint(1, 0xFFFF)
            out.append(c)
    rng.shuffle(out)
    return out


def signature(c):
    return (c["dir"], c["path"], lenclass(c["n"]), c.get("declare"), c.get("force"), c.get("buffering"),
            c.get("chunks") or c.get("reads") or c.get("via"),
            tuple(sorted((k, tuple(v) if isinstance(v, list) else v) for k, v in c["style"].items())) if "style" in c else None)


def nontrivial(c):
    n = c["n"]
    return n > 4 or n in (0, 4) or c.get("force") or c.get("declare") is False or (c.get("style") or {}).get("expedited_upload") is False


ABANDON_LENGTHS = {"exp_dl": [1, 4], "seg_dl": [5, 15, 30], "seg_dl_nosize": [0, 9], "exp_ul": [2, 4], "seg_ul": [5, 16, 29],
                   "blk_dl": [6, 50, 100], "blk_ul": [6, 50, 100], "explicit": [16, 40]}


def run_abandon(ctx, desc):
    """The client ends a transfer itself: after a lost response (time-out) or through SdoClient.abort().  The abort
    frame it emits must be a legal request frame: 8 bytes, command specifier 4, the multiplexer of the transfer."""
    import struct
    from canmon import faults
    from canmon.props import c07
    from canopen.sdo.exceptions import SdoError
    rng = random.Random(repr(("abandon", desc["case_seed"])))
    for kind in desc["kinds"]:
        for n in ABANDON_LENGTHS[kind]:
            mux = list(rng.choice(MUXES[1:])) if rng.random() < 0.6 else [rng.randint(1, 0x1FFF), rng.randint(0, 255)]
            data = payload(n, rng.randint(0, 1 << 30))

            def fresh():
                rig = rigs.ClientRig(node_id=5, od=gen.typed_od(rpdos=(), tpdos=()), timeout=0.003, blk_sizes=[5])
                rig.blk, rig.peer, rig.server_name = 5, "ref", "refserver"
                rig.server.store[tuple(mux)] = data
                return rig

            def judge(rig, c, expect_code=None):
                frames = [f for f in rig.bus.log if f.src == "master" and f.can_id == rig.rx and f.data[:1] == b"\x80"]
                ctx.case(("abandon", kind, c.get("stepclass"), lenclass(n)), True)
                if not frames:
                    return False
                for f in frames:
                    ctx.count("client_abort_frames_checked")
                    if len(f.data) != 8:
                        ctx.violation("wire:client-frame-not-8-bytes", f"client abort frame of {len(f.data)} bytes: {f.data.hex()}", c, rig.wire(30))
                        continue
                    _, index, sub, code = struct.unpack("<BHBL", f.data)
                    if [index, sub] != mux:
                        ctx.violation("wire:client-abort-multiplexer",
                                      f"client abort frame {f.data.hex()} names {index:#06x}:{sub:#04x}, the abandoned transfer is on "
                                      f"{mux[0]:#06x}:{mux[1]:#04x}", c, rig.wire(30))
                    if expect_code is not None and code != expect_code:
                        ctx.violation("wire:client-abort-code", f"abort({expect_code:#010x}) emitted code {code:#010x}", c, rig.wire(30))
                return True

            if kind == "explicit":
                for code in (0x08000000, 0x05040000, rng.getrandbits(32)):
                    rig = fresh()
                    c = {"abandon": True, "kind": kind, "n": n, "mux": mux, "code": code}
                    fp = rig.sdo.open(mux[0], mux[1], "rb", buffering=0)
                    fp.read(7)
                    rig.sdo.abort(code)
                    judge(rig, c, code)
                    if rig.server.state != "idle":
                        ctx.violation("abort-did-not-end-transfer", f"server state {rig.server.state!r} after SdoClient.abort()", c, rig.wire(30))
                    rig.close()
                continue
            rig = fresh()
            c07.do_transfer(rig, kind, mux, data)
            nresp = len([f for f in rig.bus.log if f.src == "refserver" and f.can_id == rig.tx])
            rig.close()
            for k in range(nresp):
                rig = fresh()
                c = {"abandon": True, "kind": kind, "n": n, "mux": mux, "k": k, "stepclass": "initiate" if k == 0 else "last" if k == nresp - 1 else "middle"}
                rig.bus.fault = faults.OneShot(c07.response_pred(rig), k, faults.drop)
                try:
                    c07.do_transfer(rig, kind, mux, data)
                    raised = False
                except SdoError:
                    raised = True
                except Exception as exc:  # noqa: BLE001
                    ctx.violation(f"transfer-raised:{type(exc).__name__}:abandon", f"{kind}: response {k} lost: {exc!r}", c, rig.wire(30))
                    raised = True
                rig.bus.fault = None
                if raised and not judge(rig, c):
                    ctx.inconc("call raised after a lost response but no client abort frame was seen (judged by C07)", c)
                for mech, msg in rig.server.violations:
                    if mech == "client-frame-not-8-bytes":
                        ctx.violation("wire:" + mech, msg, c, rig.wire(30))
                rig.close()


def run(ctx, desc):
    if desc.get("abandon"):
        return run_abandon(ctx, desc)
    # every third history runs on a back end that hands all frames to Network.notify() in one reused buffer
    rig = make_rig("notify-reuse" if desc["case_seed"] % 3 == 2 else "listener")
    ctx.seen("backends", rig.station.via)
    for c in cases(desc):
        run_case(ctx, rig, c)
    ctx.count("server_frames_validated", rig.server.frames_seen)
    for s in rig.server.steps_seen:
        ctx.seen("protocol_steps", s)


ARRAY_BASE = 0x2200          # one array per fixed-size type; only sub-index 1 is listed, the other members follow its declaration
ARRAY_SUBS = (1, 2, 127, 254, 255)


def typed_arrays():
    out = []
    for dt in list(R.NUMERIC) + [R.BOOLEAN]:
        members = [gen.variable("Number of entries", ARRAY_BASE + dt, 0, R.UNSIGNED8, "ro", default=255),
                   gen.variable(f"A_{R.NAMES[dt]}", ARRAY_BASE + dt, 1, dt)]
        out.append(gen.record(f"Array of {R.NAMES[dt]}", ARRAY_BASE + dt, members, array=True))
    return out


def make_rig(via="listener"):
    od = gen.typed_od(rpdos=(), tpdos=(), extra=typed_arrays())
    return rigs.ClientRig(node_id=5, od=od, via=via)


def run_case(ctx, rig, c):
    srv = rig.server
    index, sub = c["mux"]
    n = c["n"]
    ctx.case(signature(c), nontrivial(c))
    nviol, ncommit = len(srv.violations), len(srv.commits)
    mark = len(rig.bus.log)
    srv.state_before = srv.state
    trace = lambda: [f.brief() for f in list(rig.bus.log)[mark:][:60]]  # noqa: E731
    try:
        if c["dir"] == "down":
            data = ascii_payload(n, c["seed"]).encode("ascii") if c["path"] == "text" else payload(n, c["seed"])
            do_download(rig, c, index, sub, data)
            ctx.count("download_store_compared")
            new = srv.commits[ncommit:]
            if len(new) != 1:
                ctx.violation("download-commit-count", f"{len(new)} commits at the server for one completed download of {n} bytes", c, trace())
            elif new[0] != ((index, sub), data):
                ctx.violation("download-wrong-bytes" if new[0][0] == (index, sub) else "download-wrong-multiplexer",
                              f"server committed {new[0][0]} {new[0][1].hex()} for payload {data.hex()} at {(index, sub)}", c, trace())
        else:
            value, expect = do_upload_setup(rig, c, index, sub)
            got = do_upload(rig, c, index, sub)
            ctx.count("upload_bytes_compared")
            if c["path"] == "text":
                got = got.encode("ascii")
            if bytes(got) != expect:
                ctx.violation("upload-wrong-bytes", f"upload returned {bytes(got).hex()} expected {expect.hex()} (server value {value.hex()})", c, trace())
        if srv.state != "idle":
            ctx.violation("transfer-left-open", f"server state {srv.state!r} after a completed {c['dir']}load", c, trace())
    except Exception as exc:  # noqa: BLE001
        ctx.violation(f"transfer-raised:{type(exc).__name__}:{c['dir']}", f"{type(exc).__name__}: {exc}", c, trace())
        # bring both sides back to a clean state for the next case of the history
        srv.state = "idle"
    for mech, msg in srv.violations[nviol:]:
        ctx.violation("wire:" + mech, msg, c, trace())
    if len(ctx.samples) < 5 and n in (0, 5, 9):
        ctx.sample({"case": c, "wire": trace()[:12]})


def variable_of(rig, index, sub):
    entry = rig.sdo[index]
    return entry if sub == 0 and index != 0x2100 else entry[sub]


def do_download(rig, c, index, sub, data):
    sdo = rig.sdo
    n = len(data)
    if c["path"] == "variable":
        var = variable_of(rig, index, sub)
        if c["via"] == "data":
            var.data = data
        elif c["via"] == "raw":
            var.raw = data
        elif c["via"] == "write-fn":
            var.write(data)
        else:
            with var.open("wb", size=n if c["via"] == "var-open" else None) as fp:
                fp.write(data)
        return
    if c["path"] == "download":
        sdo.download(index, sub, data, force_segment=c["force"])
        return
    size = n if c["declare"] else None
    if c["path"] == "text":
        with sdo.open(index, sub, "w", buffering=c["buffering"], size=size) as fp:
            fp.write(data.decode("ascii"))
        return
    sizes = chunking(n, c["chunks"], c["seed"])
    while size is not None and len(sizes) > 1 and sizes[-1] == 0:
        sizes.pop()       # (an empty write() after the last declared byte is refused by the stream - "all expected data has already
        #                    been transmitted" - by design; not a chunking of the payload)
    buffering = c["buffering"]
    expedited = size is not None and 1 <= size <= 4 and not c["force"]
    fp = sdo.open(index, sub, "wb", buffering=buffering, size=size, force_segment=c["force"])
    try:
        pos = 0
        if buffering == 0 and expedited:
            sizes = [n]                      # raw expedited: the API needs the whole value in one write
        for k in sizes:
            chunk = data[pos:pos + k]
            pos += k
            if buffering == 0 and not chunk and not expedited:
                fp.write(b"")
            if buffering == 0:
                while chunk:                 # raw streams may accept fewer bytes than offered
                    w = fp.write(chunk)
                    if not w:
                        raise RuntimeError(f"raw write accepted {w!r} of {len(chunk)} bytes")
                    chunk = chunk[w:]
            else:
                fp.write(chunk)
    finally:
        fp.close()


def do_upload_setup(rig, c, index, sub):
    srv = rig.server
    n = c["n"]
    srv.segment_fill = None
    for k, v in c["style"].items():
        setattr(srv, k, v)
    if c["path"] == "upload-declared":
        # an entry the OD declares as a fixed-size number: the server may hold more bytes than declared
        dts = [dt for dt in R.NUMERIC] + [R.BOOLEAN]
        dt = dts[c["seed"] % len(dts)]
        index, sub = gen.TYPE_INDEX_BASE + dt, 0
        if (c["seed"] >> 8) % 3 == 0:
            # a member of an array of that type: every sub-index 1..255 is declared by the array's element type
            index, sub = ARRAY_BASE + dt, ARRAY_SUBS[(c["seed"] >> 12) % len(ARRAY_SUBS)]
        c["mux"] = [index, sub]
        value = payload(n, c["seed"])
        srv.store[(index, sub)] = value
        width = R.width(dt) // 8
        return value, value[:width]
    value = ascii_payload(n, c["seed"]).encode("ascii") if c["path"] == "text" else payload(n, c["seed"])
    if c["path"] == "variable" and n and c["seed"] % 3 == 0:
        value = value[:-1] + b"\x00"             # values may end in zero bytes; they are data, not padding
    if not srv.expedited_size_indicated and srv.expedited_upload and 1 <= n < 4:
        # expedited without size indication carries 4 bytes: only 4-byte values are unambiguous
        srv.expedited_size_indicated = True
    srv.store[(index, sub)] = value
    return value, value


def do_upload(rig, c, index, sub):
    sdo = rig.sdo
    index, sub = c["mux"]
    if c["path"] == "variable":
        var = variable_of(rig, index, sub)
        if c["via"] == "data":
            return var.data
        if c["via"] == "raw":
            return var.raw
        if c["via"] == "read-fn":
            return var.read()
        with var.open("rb") as fp:
            return fp.read()
    if c["path"] in ("upload", "upload-declared"):
        return sdo.upload(index, sub)
    if c["path"] == "text":
        with sdo.open(index, sub, "r", buffering=c["buffering"]) as fp:
            return fp.read()
    rng = random.Random(repr(("reads", c["seed"])))
    out = bytearray()
    with sdo.open(index, sub, "rb", buffering=c["buffering"]) as fp:
        raw = c["buffering"] == 0
        guard = 0
        while True:
            guard += 1
            if guard > 2 * c["n"] + 1000:
                raise RuntimeError("read loop does not terminate")
            if c["reads"] == "mixed":
                # a few sized reads first (small buffers), then everything that is left in one go
                for _ in range(rng.randint(1, 3)):
                    if rng.random() < 0.5:
                        buf = bytearray(rng.randint(1, 6))
                        k = fp.readinto(buf)
                        out += buf[:k or 0]
                    else:
                        out += fp.read(rng.randint(1, 5)) or b""
                out += fp.read() if not raw else fp.readall()
                break
            if c["reads"] == "all":
                if raw:
                    chunk = fp.read()
                    out += chunk
                    break
                out += fp.read()
                break
            if c["reads"] == "readinto":
                buf = bytearray(rng.randint(1, 20))
                k = fp.readinto(buf)
                if not k:
                    break
                out += buf[:k]
                continue
            k = 1 if c["reads"] == "ones" else rng.randint(1, 12)
            chunk = fp.read(k)
            if not chunk:
                break
            if not raw and len(chunk) > k:
                raise RuntimeError(f"read({k}) returned {len(chunk)} bytes")
            out += chunk
    return bytes(out)


def replay(ctx, case):
    if case.get("abandon"):
        return run_abandon(ctx, {"abandon": True, "case_seed": 0, "kinds": [case["kind"]]})
    rig = make_rig()
    run_case(ctx, rig, case)
