"""C03 - typed values survive the client -> bus -> server -> client round trip.

Master network (RemoteNodes) and slave network (LocalNodes) with the same
generated dictionary; a third noise station.  Delivery modes: inline SimBus,
threaded SimBus with seeded delays + sys.monitoring yield injection, python-can
'virtual' bus with real Notifier threads, and (thorough) a fragile driver that
mixes overlapping sends.  Oracles: ref.codec for the bytes held by the local
node; read-back through both sides equals the value written last by that
thread; per-thread unique values make any foreign value cross-talk.
"""
from __future__ import annotations

import random
import struct
import threading
import time

from canmon import gen, oracles, perturb, rigs, simbus
from canmon.ref import codec as R

ID = "C03"
LEVEL = "exploration"
RULE = ("case = one typed assignment through remote.sdo[key].raw (key by index, by name, by 'Record.Member') followed by "
        "read-back through the remote node, through the local node and inspection of LocalNode.data_store. Inline mode: all "
        "values of the 8/16-bit types (thorough; stride-sampled in quick), range ends +-2 and powers of two +-2 and seeded "
        "random values of wider types, BOOLEAN, REAL32/64 specials, strings/blobs of length 0..200. Threaded modes: 1..8 "
        "client threads on distinct nodes, unique values per thread, noise traffic, seeded delivery delays and yield "
        "injection. Signature = (mode, type, key style, value class); distinct interleaving signatures are recorded "
        "separately; non-trivial = value not 0/1/empty.")
RULE += (" " + "Widened later: configured Default/ParameterValues on strings and blobs, values ending in blanks / starting with byte-order-mark look-alikes, a record whose member names contain dots, an idle node flooded with unsolicited answers (blocked receive path detection), mode 'slow' (0.25 s per frame with RESPONSE_TIMEOUT raised); client time-outs in threaded modes are triaged by the delivery log.; unrelated 29-bit traffic whose low 11 bits equal an SDO channel of a node under test; one threaded shard in which all eight threads move values of the odd-width integer types only (shared codec objects), followed by a bus-less burst of application-side reads and writes on each thread's own node, with schedule perturbation inside the codec.")
ASSUMPTIONS = ["schedules are sampled (seeded delays, yield injection), not enumerated",
               "unrelated traffic = frames on COB-IDs other than the SDO channels of the nodes under test",
               "a time-out in a threaded mode is a violation only when the response is known to have been delivered"]
REQUIRED = {"roundtrips": 2000, "store_bytes_compared": 2000}
SHARD_TIMEOUT = {"quick": 240, "thorough": 1800}


def plan(tier, seed):
    shards = []
    n_inline = 12
    for i in range(n_inline):
        shards.append({"mode": "inline", "part": i, "parts": n_inline, "stride": 37 if tier == "quick" else 1,
                       "n_random": 30 if tier == "quick" else 400, "cs": seed * 100 + i})
    nthreaded = 3 if tier == "quick" else 24
    for i in range(nthreaded):
        shards.append({"mode": "threaded", "threads": [2, 8, 5, 1, 3, 4, 6, 7][i % 8], "ops": 40 if tier == "quick" else 120,
                       "cs": seed * 100 + 20 + i, "perturb": True})
    for i in range(1 if tier == "quick" else 6):
        shards.append({"mode": "pycan", "threads": [4, 8, 2][i % 3], "ops": 40 if tier == "quick" else 150, "cs": seed * 100 + 60 + i})
    shards.append({"mode": "slow", "cs": seed * 100 + 95})
    # all threads move values of the same few types (the codec objects behind a data type are shared by every node of the
    # process); the schedule is perturbed inside the codec as well
    for i in range(1 if tier == "quick" else 4):
        shards.append({"mode": "threaded", "threads": 8, "ops": 60 if tier == "quick" else 200, "cs": seed * 100 + 70 + i, "perturb": True,
                       "types": "odd-width", "p_yield": 0.08})
    for i in range(1 if tier == "quick" else 6):
        shards.append({"mode": "fragile", "threads": [4, 8, 6][i % 3], "ops": 40 if tier == "quick" else 150, "cs": seed * 100 + 80 + i})
    return shards


def od_factory():
    od = gen.typed_od(rpdos=(), tpdos=())
    # configured values (EDS DefaultValue / DCF ParameterValue) exist for the strings and blobs: a written value,
    # however short, replaces them
    for dt, (default, value) in {R.VISIBLE_STRING: ("default text", None), R.UNICODE_STRING: (None, "configured"),
                                 R.OCTET_STRING: (b"\x01\x02\x03", None), R.DOMAIN: (b"default blob", b"configured blob")}.items():
        for var in (od[gen.TYPE_INDEX_BASE + dt], od[0x2100][member_sub(dt)]):
            var.default, var.value = default, value
    # a record whose member names contain dots themselves ("Max. current"): 'Record.Member' is split at the first dot
    od.add_object(gen.record("Motor", 0x2300, [gen.variable("Highest sub-index", 0x2300, 0, R.UNSIGNED8, "const", default=2),
                                               gen.variable("Max. current", 0x2300, 1, R.UNSIGNED16),
                                               gen.variable("Serial no.", 0x2300, 2, R.UNSIGNED32)]))
    return od


def keys_for(dt):
    name = R.NAMES[dt]
    return [("index", gen.TYPE_INDEX_BASE + dt), ("name", f"V_{name}"), ("dotted", f"Typed record.M_{name}")]


def member_sub(dt):
    return list(R.NAMES).index(dt) + 1


def vclass(dt, v):
    if dt in R.INTEGERS:
        lo, hi = R.int_range(dt)
        return "min" if v == lo else "max" if v == hi else "neg" if v < 0 else "small" if v < 2 else "pos"
    if dt in R.REALS:
        return "nan" if v != v else "inf" if abs(v) == float("inf") else "zero" if v == 0 else "finite"
    if dt == R.BOOLEAN:
        return "bool"
    n = len(v)
    return "len0" if n == 0 else "len1-4" if n <= 4 else "len5-7" if n <= 7 else "len8-14" if n <= 14 else "len15+"


def equal(dt, a, b):
    if dt in R.REALS:
        return isinstance(a, float) and R.same_float(a, b)
    if dt == R.BOOLEAN:
        return bool(a) == bool(b)
    if dt in R.BLOBS:
        return bytes(a) == bytes(b)
    return a == b and type(a) is type(b)


def roundtrip(ctx, remote, local, dt, keystyle, key, v, mode, case_extra=None, trace=None):
    """Write through the remote node, read back from both sides, inspect the store."""
    case = {"mode": mode, "type": R.NAMES[dt], "key": key, "value": v}
    if case_extra:
        case.update(case_extra)
    ctx.case((mode, R.NAMES[dt], keystyle, vclass(dt, v)), nontrivial=v not in (0, 1, "", b""))
    index, sub = (gen.TYPE_INDEX_BASE + dt, 0) if keystyle != "dotted" else (0x2100, member_sub(dt))
    want = R.encode(dt, v)
    try:
        remote.sdo[key].raw = v
        stored = local.data_store.get(index, {}).get(sub)
        ctx.count("store_bytes_compared")
        if stored != want:
            ctx.violation(f"store-bytes-wrong:{R.NAMES[dt]}:{mode}", f"data_store[{index:#x}][{sub}] = {stored!r}, CiA 301 encoding of {v!r} is {want!r}", case, trace and trace())
        got_r = remote.sdo[key].raw
        got_l = local.sdo[key].raw
        ctx.count("roundtrips")
        for side, got in (("remote", got_r), ("local", got_l)):
            if not equal(dt, got, v):
                ctx.violation(f"readback-mismatch:{side}:{R.NAMES[dt]}:{mode}", f"wrote {v!r}, {side} read-back gave {got!r}", case, trace and trace())
    except Exception as exc:  # noqa: BLE001
        ctx.violation(f"roundtrip-raised:{type(exc).__name__}:{R.NAMES[dt]}:{mode}", f"{type(exc).__name__}: {exc}", case, trace and trace())


# ----------------------------------------------------------------------------- inline sweep
def values_inline(rng, dt, desc):
    if dt in R.INTEGERS:
        w = R.INTEGERS[dt]
        lo, hi = R.int_range(dt)
        if w <= 16:
            vals = set(range(lo + desc["part"] % desc["stride"], hi + 1, desc["stride"]))
            vals.update(R.boundary_ints(dt))
            return sorted(vals)
        return R.boundary_ints(dt, rng, desc["n_random"])
    if dt == R.BOOLEAN:
        return [True, False]
    if dt in R.REALS:
        vals = list(R.float_specials()) + [float("nan")]
        if dt == R.REAL32:
            out = []
            for v in vals:
                try:
                    out.append(struct.unpack("<f", struct.pack("<f", v))[0])
                except OverflowError:
                    pass
            vals = out
        vals += [rng.uniform(-1e6, 1e6) if dt == R.REAL64 else struct.unpack("<f", struct.pack("<f", rng.uniform(-1e6, 1e6)))[0]
                 for _ in range(desc["n_random"])]
        return vals
    lengths = sorted(set(list(range(0, 16)) + [rng.randint(16, 200) for _ in range(desc["n_random"] // 4)] + [199, 200]))
    out = []
    if dt == R.VISIBLE_STRING:
        out += ["abc ", " ", "two  blanks  ", " lead"]                       # blanks are characters, also at the end
    if dt == R.UNICODE_STRING:
        out += ["\ufeffab", "\ufffeab", "a\ufeff", "\ufeff", "end "]           # byte-order-mark look-alikes are characters too
    for n in lengths:
        if dt == R.VISIBLE_STRING:
            out.append("".join(chr(rng.randint(32, 126)) for _ in range(n)).rstrip() + ("x" if n else ""))
        elif dt == R.UNICODE_STRING:
            out.append("".join(chr(rng.choice([rng.randint(33, 126), rng.randint(0xA1, 0xD7FF), rng.randint(0xE000, 0xFFFD)])) for _ in range(n)))
        else:
            out.append(bytes(rng.getrandbits(8) for _ in range(n)))
    return out


def run_shared_od(ctx, desc):
    """Several local nodes built from the same ObjectDictionary object (a common way to set up identical devices)."""
    from canopen.sdo.exceptions import SdoAbortedError
    shared_local, shared_remote = gen.typed_od(rpdos=(), tpdos=()), gen.typed_od(rpdos=(), tpdos=())     # no configured values here
    factories = iter([shared_remote, shared_local] * 3)
    rig = rigs.PairRig(lambda: next(factories), node_ids=(3, 4, 6))
    rng = random.Random(repr(("c03s", desc["cs"])))
    for dt in R.NAMES:
        for a, b in ((3, 4), (6, 3), (4, 6)):
            v = unique_value(rng, dt, a, 8, rng.randrange(1000))
            style, key = rng.choice(keys_for(dt))
            case = {"mode": "shared-od", "type": R.NAMES[dt], "key": key, "value": v, "written_on": a, "read_on": b}
            ctx.case(("shared-od", R.NAMES[dt], style), nontrivial=True)
            try:
                rig.remotes[a].sdo[key].raw = v
            except Exception as exc:  # noqa: BLE001
                ctx.violation(f"roundtrip-raised:{type(exc).__name__}:shared-od", repr(exc), case)
                continue
            ctx.count("roundtrips")
            index, sub = (gen.TYPE_INDEX_BASE + dt, 0) if style != "dotted" else (0x2100, member_sub(dt))
            ctx.count("store_bytes_compared")
            if rig.locals[a].data_store.get(index, {}).get(sub) != R.encode(dt, v):
                ctx.violation("store-bytes-wrong:shared-od", f"node {a} does not hold the encoding of {v!r}", case)
            # node b was never given a value for this object (or holds its own earlier one): it must not report a's
            own = rig.locals[b].data_store.get(index, {}).get(sub)
            try:
                got = rig.remotes[b].sdo[key].raw
                if own is None or not equal(dt, got, R.decode(dt, own)):
                    ctx.violation("cross-talk:shared-od", f"node {b} reports {got!r} for an object only node {a} was given (node {b} holds {own!r})", case)
            except SdoAbortedError as exc:
                if own is not None:
                    ctx.violation("cross-talk:shared-od", f"node {b} aborts with {exc} although it holds {own!r}", case)
    ctx.sample({"mode": "shared-od", "nodes": [3, 4, 6]})
    rig.close()


def run_inline(ctx, desc):
    oracles.install_codec(ctx, prefix="ambient_codec")
    if desc["part"] == 0:
        run_shared_od(ctx, desc)
    rig = rigs.PairRig(od_factory, node_ids=(3,))
    rng = random.Random(repr(("c03i", desc["cs"])))
    if desc["part"] == 1:
        for key, sub, dt in (("Motor.Max. current", 1, R.UNSIGNED16), ("Motor.Serial no.", 2, R.UNSIGNED32)):
            for v in R.boundary_ints(dt)[:6]:
                case = {"mode": "inline", "key": key, "value": v}
                ctx.case(("inline", R.NAMES[dt], "dotted-member-name"), nontrivial=True)
                try:
                    rig.node.sdo[key].raw = v
                    ctx.count("roundtrips")
                    ctx.count("store_bytes_compared")
                    if rig.local.data_store.get(0x2300, {}).get(sub) != R.encode(dt, v) or rig.node.sdo[key].raw != v or rig.local.sdo[key].raw != v \
                            or rig.node.sdo[0x2300][sub].raw != v:
                        ctx.violation("readback-mismatch:dotted-member-name", f"{key!r} = {v}: store {rig.local.data_store.get(0x2300, {}).get(sub)!r}", case)
                except Exception as exc:  # noqa: BLE001
                    ctx.violation(f"roundtrip-raised:{type(exc).__name__}:dotted-member-name", f"{key!r}: {exc!r}", case)
    types = list(R.NAMES)
    small = [dt for dt in types if dt in R.INTEGERS and R.INTEGERS[dt] <= 16]
    mine = [dt for i, dt in enumerate(types) if i % desc["parts"] == desc["part"]]
    for dt in dict.fromkeys(small + mine):
        vals = values_inline(rng, dt, desc)
        if dt in small:
            # the exhaustive sweep of a small type is split across shards
            vals = [v for i, v in enumerate(vals) if i % desc["parts"] == desc["part"]] if desc["stride"] == 1 else vals
        ks = keys_for(dt)
        for i, v in enumerate(vals):
            style, key = ks[i % 3]
            roundtrip(ctx, rig.node, rig.local, dt, style, key, v, "inline", trace=lambda: rig.wire(14))
        ctx.sample({"mode": "inline", "type": R.NAMES[dt], "values": len(vals), "example": vals[len(vals) // 2] if vals else None})
    rig.close()


# ----------------------------------------------------------------------------- threaded modes
def unique_value(rng, dt, tid, nthreads, counter):
    """A value of type dt that only thread ``tid`` can have produced."""
    if dt in R.INTEGERS:
        lo, hi = R.int_range(dt)
        span = hi - lo + 1
        slots = span // nthreads
        return lo + (rng.randrange(slots) * nthreads + tid)
    if dt == R.BOOLEAN:
        return bool(counter & 1)
    if dt == R.REAL32:
        return struct.unpack("<f", struct.pack("<f", tid * 1000.0 + (counter % 997) + 0.5))[0]
    if dt == R.REAL64:
        return tid * 1e6 + counter + 0.25
    n = rng.choice([0, 1, 4, 5, 7, 8, 15, 30, rng.randint(0, 60)])
    tag = f"T{tid}C{counter}:"
    if dt == R.VISIBLE_STRING:
        return (tag + "".join(chr(rng.randint(33, 126)) for _ in range(n)))
    if dt == R.UNICODE_STRING:
        return tag + "".join(chr(rng.randint(0xA1, 0x2FF)) for _ in range(n))
    return tag.encode() + bytes(rng.getrandbits(8) for _ in range(n))


def owner_of(dt, v, nthreads):
    try:
        if dt in R.INTEGERS:
            return (v - R.int_range(dt)[0]) % nthreads
        if dt in (R.VISIBLE_STRING, R.UNICODE_STRING):
            return int(v[1:v.index("C")])
        if dt in R.BLOBS:
            s = bytes(v).split(b":")[0].decode()
            return int(s[1:s.index("C")])
    except Exception:  # noqa: BLE001
        return None
    return None


IDLE_NODE = 41        # a node the master also knows, and to which it never talks during the run


def noise_loop(station, stop, rng, node_ids):
    """Unrelated traffic: PDOs, heartbeats, EMCY, SYNC and SDO frames of *other* node ids."""
    others = [i for i in range(40, 60)]
    n = 0
    # another master polls the idle node: a few hundred answers nobody on this network asked for
    for _ in range(300):
        station.send(0x580 + IDLE_NODE, bytes([0x43, 0, 0x20, 0]) + bytes(rng.getrandbits(8) for _ in range(4)))
        n += 1
    while not stop.is_set():
        kind = rng.random()
        nid = rng.choice(others)
        if kind < 0.3:
            station.send(0x180 + rng.choice(others + list(node_ids)), bytes(rng.getrandbits(8) for _ in range(rng.randint(0, 8))))
        elif kind < 0.5:
            station.send(0x700 + rng.choice(others + list(node_ids)), bytes([rng.choice([0, 4, 5, 127])]))
        elif kind < 0.6:
            station.send(0x80 + nid, bytes(rng.getrandbits(8) for _ in range(8)))
        elif kind < 0.7:
            station.send(0x80, b"")
        elif kind < 0.8:
            station.send(0x580 + nid, bytes([0x43, 0, 0x20, 0]) + bytes(rng.getrandbits(8) for _ in range(4)))
        elif kind < 0.9:
            # 29-bit traffic (J1939 and the like share the wire): identifiers whose low 11 bits happen to equal an SDO
            # channel of a node under test are still unrelated frames
            base = rng.choice([0x18FE0000, 0x0CF00000, 0x1FFFF800, 0x00000800])
            tgt = rng.choice(list(node_ids))
            if rng.random() < 0.5:
                station.send(base | (0x580 + tgt), bytes([0x80, 0, 0x20, 0, 0, 0, 0x04, 0x05]))
            else:
                station.send(base | (0x600 + tgt), bytes([0x40, 0, 0x10, 0, 0, 0, 0, 0]))
        else:
            station.send(0x600 + nid, bytes([0x40, 0, 0x20, 0, 0, 0, 0, 0]))
        n += 1
        time.sleep(rng.random() * 0.0008)
    return n


ODD_WIDTH = [R.INTEGER24, R.UNSIGNED24, R.INTEGER40, R.UNSIGNED40, R.INTEGER48, R.UNSIGNED48, R.INTEGER56, R.UNSIGNED56]
CODEC_TARGETS = [("objectdictionary/datatypes.py", "return super().unpack(", 0.0003),
                 ("objectdictionary/datatypes.py", "packed = super().pack(", 0.0003),
                 ("objectdictionary/__init__.py", "value, = self.STRUCT_TYPES[self.data_type].unpack(data)", 0.0002)]


def client_thread(ctx, rig, nid, tid, nthreads, ops, seed, mode, errors, types=None):
    rng = random.Random(repr(("c03t", seed, tid)))
    remote, local = rig.remotes[nid], rig.locals[nid]
    types = list(types or R.NAMES)
    try:
        for counter in range(ops):
            dt = rng.choice(types)
            style, key = rng.choice(keys_for(dt))
            v = unique_value(rng, dt, tid, nthreads, counter)
            index, sub = (gen.TYPE_INDEX_BASE + dt, 0) if style != "dotted" else (0x2100, member_sub(dt))
            case = {"mode": mode, "thread": tid, "node": nid, "type": R.NAMES[dt], "key": key, "value": v, "op": counter}
            ctx.case((mode, R.NAMES[dt], style, vclass(dt, v), nthreads), nontrivial=True)
            t0 = case["t0"] = time.time()
            try:
                remote.sdo[key].raw = v
                stored = local.data_store.get(index, {}).get(sub)
                got_r = remote.sdo[key].raw
                got_l = local.sdo[key].raw
            except Exception as exc:  # noqa: BLE001
                errors.append((case, exc, time.time() - t0))
                since = getattr(getattr(rig, "master_station", None), "delivering_since", None)      # (read once: another thread resets it)
                if since is not None and time.time() - since > 10.0:
                    break               # the network's receive path is stuck: nothing more can be learnt from this thread
                continue
            ctx.count("roundtrips")
            ctx.count("store_bytes_compared")
            want = R.encode(dt, v)
            if stored != want:
                ctx.violation(f"store-bytes-wrong:{R.NAMES[dt]}:threaded", f"node {nid}: data_store holds {stored!r}, encoding of {v!r} is {want!r}", case)
            for side, got in (("remote", got_r), ("local", got_l)):
                if not equal(dt, got, v):
                    own = owner_of(dt, got, nthreads)
                    mech = "cross-talk" if own is not None and own != tid else "readback-mismatch"
                    ctx.violation(f"{mech}:{side}:threaded", f"thread {tid} (node {nid}) wrote {v!r}, {side} read-back gave {got!r} (owner of that value: thread {own})", case)
        if types is not None:
            local_burst(ctx, local, nid, tid, nthreads, types, rng, ops * 20, mode)
    except BaseException as exc:  # noqa: BLE001 - harness failure must surface
        errors.append(({"thread": tid, "fatal": True}, exc, 0))


def local_burst(ctx, local, nid, tid, nthreads, types, rng, n, mode):
    """The application side of each node reads and writes its own entries in a tight loop while the other threads do
    the same on theirs: no bus in between, so the shared codec objects are entered by several threads at once."""
    for counter in range(n):
        dt = rng.choice(types)
        style, key = rng.choice(keys_for(dt))
        v = unique_value(rng, dt, tid, nthreads, 100000 + counter)
        case = {"mode": mode, "thread": tid, "node": nid, "type": R.NAMES[dt], "key": key, "value": v, "op": "local-burst"}
        ctx.case((mode, "local-burst", R.NAMES[dt], style, nthreads), nontrivial=True)
        try:
            local.sdo[key].raw = v
            got = local.sdo[key].raw
        except Exception as exc:  # noqa: BLE001
            ctx.violation(f"roundtrip-raised:{type(exc).__name__}:{R.NAMES[dt]}:local-burst", f"{type(exc).__name__}: {exc}", case)
            continue
        ctx.count("roundtrips")
        if not equal(dt, got, v):
            own = owner_of(dt, got, nthreads)
            mech = "cross-talk" if own is not None and own != tid else "readback-mismatch"
            ctx.violation(f"{mech}:local:threaded", f"thread {tid} (node {nid}) wrote {v!r}, its own node read back {got!r} (owner of that value: thread {own})", case)


def triage_timeout(rig, case, duration):
    """('lost', how) when the delivery log shows the slave's answer to the call's last request reaching the master's
    network at least 5 s before the client gave up (RESPONSE_TIMEOUT is 20 s); ('harness', why) otherwise."""
    nid = case["node"]
    t_end = case.get("t0", 0) + duration

    def snapshot(dq):
        for _ in range(50):                 # dispatcher threads may still be appending: copy until it works
            try:
                return list(dq)
            except RuntimeError:
                time.sleep(0.01)
        return []
    log, delivered = snapshot(rig.bus.log), snapshot(rig.bus.delivered)
    reqs = [f for f in log if f.src == "master" and f.can_id == 0x600 + nid and case.get("t0", 0) - 0.001 <= f.wall <= t_end]
    if not reqs:
        return "harness", "no request of this call found in the bus log"
    last = reqs[-1]
    for ts, dst, f, wall in delivered:
        if dst == "master" and f.can_id == 0x580 + nid and f.ts > last.ts:
            if wall <= t_end - 5.0:
                return "lost", f"{wall - last.wall:.2f} s after the request"
            return "harness", f"the answer reached the master only {wall - last.wall:.1f} s after the request"
    return "harness", "the answer never reached the master's network (bus / slave threads starved)"


def run_threaded(ctx, desc):
    import sys
    from canopen.sdo.exceptions import SdoCommunicationError
    mode = desc["mode"]
    nthreads = desc["threads"]
    node_ids = tuple(range(1, nthreads + 1))
    sys.setswitchinterval(1e-5)
    rng = random.Random(repr(("c03n", desc["cs"])))
    if mode == "pycan":
        rig = PyCanRig(od_factory, node_ids, f"canmon-c03-{desc['cs']}-{time.time_ns()}")
    else:
        rig = rigs.PairRig(od_factory, node_ids, mode="threaded", timeout=20.0, seed=desc["cs"], max_delay=0.0006,
                           master_kw={"fragile": mode == "fragile"})
        rig.noise = rig.bus.actor_station("noise")
    import canopen
    rig.master_net.add_node(canopen.RemoteNode(IDLE_NODE, od_factory()))
    pert = None
    if desc.get("perturb") or mode in ("fragile",):
        pert = perturb.Perturb(seed=desc["cs"], p_yield=desc.get("p_yield", 0.02),
                               targets=perturb.DEFAULT_TARGETS + (CODEC_TARGETS if desc.get("types") else [])).start()
    stop = threading.Event()
    noise_count = [0]
    nt = threading.Thread(target=lambda: noise_count.__setitem__(0, noise_loop(rig.noise, stop, rng, node_ids)), daemon=True)
    nt.start()
    errors = []
    threads = [threading.Thread(target=client_thread, name=f"client-{t}", daemon=True,
                                args=(ctx, rig, node_ids[t], t, nthreads, desc["ops"], desc["cs"], mode, errors,
                                      ODD_WIDTH if desc.get("types") == "odd-width" else None))
               for t in range(nthreads)]
    for t in threads:
        t.start()
    deadline = time.time() + 150
    for t in threads:
        t.join(max(0.1, deadline - time.time()))
    hung = [t.name for t in threads if t.is_alive()]
    stop.set()
    nt.join(2)
    if pert:
        pert.stop()
        rep = pert.report()
        ctx.add("yields_injected", rep["yields_injected"])
        ctx.add("delays_injected", rep["delays_injected"])
        ctx.add("perturbed_lines_seen", rep["lines_seen"])
        ctx.seen("target_points_active", rep["target_points_active"])
    ctx.add("noise_frames", noise_count[0])
    if hung:
        ctx.inconc(f"client threads still running after the watchdog: {hung}", {"mode": mode, "threads": nthreads})
    since = getattr(getattr(rig, "master_station", None), "delivering_since", None)          # (read once: another thread resets it)
    blocked = since is not None and time.time() - since > 10.0
    if blocked:
        ctx.violation(f"receive-path-blocked:{mode}", f"the master network's receive path has not returned from one frame for "
                      f"{time.time() - since:.0f} s (every later frame of every node is stuck behind it)", {"mode": mode, "threads": nthreads})
        errors = [e for e in errors if not (isinstance(e[1], SdoCommunicationError) and "No SDO response" in str(e[1]))]
    tainted = set()         # nodes on which a time-out was put down to starved harness threads: a late answer may follow
    for case, exc, dt_ in errors:
        if case.get("fatal"):
            raise exc
        if isinstance(exc, SdoCommunicationError) and "No SDO response" in str(exc) and mode != "fragile":
            # decided by the delivery log, not by the clock: had the answer to the last request of this call been handed
            # to the client's network (Network.notify returned) in good time before the client gave up?
            verdict, detail = triage_timeout(rig, case, dt_) if mode == "threaded" else ("lost", "")
            if verdict == "lost":
                ctx.violation(f"response-lost:{mode}", f"client timed out after {dt_:.1f}s although the answer had been delivered to its network {detail}: {exc}", case)
            else:
                tainted.add(case["node"])
                ctx.inconc(f"client time-out after {dt_:.1f}s put down to the harness (loaded machine): {detail}", case)
        elif case.get("node") in tainted and isinstance(exc, SdoCommunicationError):
            ctx.inconc(f"follow-on of an inconclusive time-out on node {case['node']}: {exc}", case)
        else:
            ctx.violation(f"roundtrip-raised:{type(exc).__name__}:{mode}", f"{type(exc).__name__}: {exc}", case)
    # interleaving signature: order in which the nodes' SDO frames appeared on the bus
    frames = rig.frame_ids()
    sig = hash(tuple(frames[:400]))
    ctx.seen("interleaving_signatures", f"{mode}:{nthreads}:{sig & 0xFFFFFFFF:08x}")
    ctx.add("frames_observed", len(frames))
    if mode == "fragile":
        ctx.add("fragile_overlapping_sends", rig.master_station.overlaps)
        if rig.master_station.overlaps:
            ctx.violation("overlapping-sends-on-one-bus", f"{rig.master_station.overlaps} sends overlapped on the master's bus object "
                          "(Network.send_message promises to be safe to call from multiple threads)", {"mode": mode, "threads": nthreads})
    ctx.sample({"mode": mode, "threads": nthreads, "ops_per_thread": desc["ops"], "frames": len(frames),
                "first_frame_ids": [hex(i) for i in frames[:24]]})
    rig.close()


class PyCanRig:
    """Master and slave networks on python-can's threaded 'virtual' bus, real Notifiers."""

    def __init__(self, od_factory_, node_ids, channel):
        import can
        import canopen
        self.channel = channel
        self.master_net = canopen.Network().connect(interface="virtual", channel=channel)
        self.slave_net = canopen.Network().connect(interface="virtual", channel=channel)
        self.remotes, self.locals = {}, {}
        for nid in node_ids:
            r = canopen.RemoteNode(nid, od_factory_())
            r.sdo.RESPONSE_TIMEOUT = 20.0
            self.master_net.add_node(r)
            l = canopen.LocalNode(nid, od_factory_())
            self.slave_net.add_node(l)
            self.remotes[nid], self.locals[nid] = r, l
        self.sniffer = can.Bus(interface="virtual", channel=channel)
        self.noise_bus = can.Bus(interface="virtual", channel=channel)
        self.seen = []
        self._stop = threading.Event()
        self._t = threading.Thread(target=self._sniff, daemon=True)
        self._t.start()
        rig = self

        class Noise:
            def send(self_, can_id, data):
                rig.noise_bus.send(can.Message(arbitration_id=can_id, data=data, is_extended_id=can_id > 0x7FF))
        self.noise = Noise()

    def _sniff(self):
        while not self._stop.is_set():
            msg = self.sniffer.recv(0.05)
            if msg is not None:
                self.seen.append(msg.arbitration_id)

    def frame_ids(self):
        return [i for i in self.seen if 0x580 <= i <= 0x67F]

    def close(self):
        self._stop.set()
        self._t.join(1)
        for net in (self.master_net, self.slave_net):
            try:
                net.disconnect()
            except Exception:  # noqa: BLE001
                pass
        self.sniffer.shutdown()
        self.noise_bus.shutdown()


def _pair_frame_ids(self):
    for _ in range(50):                     # a thread that is still sending appends to the log: copy until it works
        try:
            log = list(self.bus.log)
            break
        except RuntimeError:
            time.sleep(0.01)
    else:
        log = []
    return [f.can_id for f in log if 0x580 <= f.can_id <= 0x67F and f.src in ("master", "slave")]


rigs.PairRig.frame_ids = _pair_frame_ids


def run_slow(ctx, desc):
    """Responses delivered *much* later from another thread: every frame needs 0.25 s (a gateway, a busy device), so an
    answer arrives half a second after its request, and the application has raised RESPONSE_TIMEOUT accordingly (the
    documented knob, set on the client object as all the other modes do).  Nothing is judged by the clock: with a
    20 s allowance a round trip either completes or the knob was not honoured."""
    rig = rigs.PairRig(od_factory, (3,), mode="threaded", timeout=20.0, seed=desc["cs"], max_delay=0.0)
    rig.bus.min_delay = 0.25
    rng = random.Random(repr(("c03slow", desc["cs"])))
    for dt, v in ((R.UNSIGNED16, 0xBEEF), (R.INTEGER32, -2), (R.REAL32, 1.5), (R.VISIBLE_STRING, "slow but sure"), (R.BOOLEAN, True)):
        style, key = rng.choice(keys_for(dt))
        roundtrip(ctx, rig.node, rig.local, dt, style, key, v, "slow", trace=lambda: rig.wire(14))
    ctx.sample({"mode": "slow", "per_frame_delay_s": 0.25, "response_timeout_s": 20.0})
    rig.close()


def run(ctx, desc):
    rigs.LogCapture()
    if desc["mode"] == "inline":
        run_inline(ctx, desc)
    elif desc["mode"] == "slow":
        run_slow(ctx, desc)
    else:
        run_threaded(ctx, desc)


def replay(ctx, case):
    rigs.LogCapture()
    if case.get("mode") == "inline":
        rig = rigs.PairRig(od_factory, node_ids=(3,))
        dt = {v: k for k, v in R.NAMES.items()}[case["type"]]
        key = case["key"]
        style = "index" if isinstance(key, int) else "dotted" if "." in key else "name"
        v = case["value"]
        if isinstance(v, str) and v.startswith("hex:"):
            v = bytes.fromhex(v[4:])
        roundtrip(ctx, rig.node, rig.local, dt, style, key, v, "inline")
    else:
        ctx.case(("replay",))
        ctx.inconc("schedule-dependent witness: re-run the shard with the same seed (up to 50 times)", case)
