"""C17 - periodic transmissions run exactly when and with what the API state says.

Observation point: the live cyclic-task table of the simulated bus stations
(both task flavours: modifiable in place like python-can's thread based tasks,
and fixed-at-start like hardware/BCM schedulers).  Oracle: reference model of
the expected live-task table after every call (ref.periodic, below), plus
``tick()`` which compares what would be transmitted with the table.
"""
from __future__ import annotations

import random

from canmon import gen, rigs, simbus
from canmon.ref import codec as R

ID = "C17"
LEVEL = "exploration"
RULE = ("random call sequences of 30 (quick) / 200 (thorough) operations over the SYNC producer, two PDO maps (local TPDO, "
        "remote RPDO), the heartbeat producer (0x1017 written locally and over the bus, NMT state changes by the slave and "
        "by the master, start/stop_heartbeat) and node guarding, on buses whose cyclic tasks can / cannot be modified in "
        "place; after EVERY call the live-task table of both stations must equal the model (<= 1 task per producer, right "
        "id / payload / period / remote flag); histories end with network.disconnect(). Signature = (operation, producer "
        "state before, bus flavour); non-trivial = the producer was already running when the call was made.")
RULE += (" " + 'Widened later: maps of either direction, bit-field variables, payloads recurring across stop/start, refused writes to 0x1017, restartable fixed-frame tasks, frame format in the task tables.')
ASSUMPTIONS = ["the harness never mutates PdoMap.data behind the API (assignments go through PdoVariable.raw / update())",
               "period equality is exact float equality of the value given to the API (ms/1000 for the heartbeat)"]
REQUIRED = {"table_comparisons": 1000, "ticks": 50, "disconnects": 10}
K = 5
STATE_BY_CMD = {1: 5, 2: 4, 80: 80, 96: 96, 128: 127, 129: 0, 130: 0}
NAME_CMD = {"OPERATIONAL": 1, "STOPPED": 2, "SLEEP": 80, "STANDBY": 96, "PRE-OPERATIONAL": 128, "INITIALISING": 129,
            "RESET": 129, "RESET COMMUNICATION": 130}


def plan(tier, seed):
    n = 9
    return [{"histories": 40 if tier == "quick" else 1200, "length": 30 if tier == "quick" else 200, "modifiable": [True, False, "copy", "restartable"][i % 4],
             "cs": seed * 100 + i} for i in range(n)]


def od_factory():
    d = gen.typed_od(rpdos=(1,), tpdos=(1,), heartbeat=True)
    return d


class Expect:
    """ref.periodic: what must be live, per station."""

    def __init__(self):
        self.sync = None            # period when running
        self.sync_period = None     # last period given
        self.pdo = {"local": None, "remote": None}      # (payload, period) when running
        self.pdo_period = {"local": None, "remote": None}
        self.hb = None              # period in s when running
        self.od_ms = 0              # value of the heartbeat time object 0x1017
        self.state = 0              # slave NMT state code
        self.guard = None           # period

    def table(self, cob):
        master, slave = [], []
        if self.sync is not None:
            master.append((0x80, b"", self.sync, False))
        if self.guard is not None:
            master.append((0x700 + K, b"", self.guard, True))
        if self.pdo["remote"] is not None:
            master.append((cob["remote"], self.pdo["remote"][0], self.pdo["remote"][1], False))
        if self.pdo["local"] is not None:
            slave.append((cob["local"], self.pdo["local"][0], self.pdo["local"][1], False))
        if self.hb is not None:
            slave.append((0x700 + K, bytes([self.state]), self.hb, False))
        # (all ids used here are 11-bit ids: standard frame format, last element)
        return sorted(t + (False,) for t in master), sorted(t + (False,) for t in slave)


def field_range(var):
    if var.od.data_type == R.BOOLEAN:
        return 0, 1
    lo, hi = R.int_range(var.od.data_type)
    if var.length < R.width(var.od.data_type):
        return 0, (1 << var.length) - 1
    return lo, hi


def live(st):
    out = []
    for t in st.tasks:
        cid, data, ext, rtr = t.current()
        out.append((cid, b"" if rtr else bytes(data), t.period, bool(rtr), bool(ext)))
    return sorted(out)


def history(ctx, rng, desc, hid):
    import canopen
    mod = desc["modifiable"]
    bus = simbus.SimBus(mode="inline")
    mnet, mst = simbus.make_network(bus, "master", modifiable=mod)
    snet, sst = simbus.make_network(bus, "slave", modifiable=mod)
    remote = mnet.add_node(canopen.RemoteNode(K, od_factory()))
    local = snet.create_node(canopen.LocalNode(K, od_factory()))
    remote.sdo.RESPONSE_TIMEOUT = 0.05
    cob = {"local": 0x180 + K, "remote": 0x200 + K}
    # usually a local node transmits its TPDOs and a master the RPDOs of a remote node, but any map can be started
    # (a gateway re-transmitting what it consumes, a tool simulating the device's TPDO, ...)
    usual = rng.random() < 0.6
    maps = {"local": local.tpdo[1], "remote": remote.rpdo[1]} if usual else {"local": local.rpdo[1], "remote": remote.tpdo[1]}
    for name, m in maps.items():
        m.cob_id = cob[name]
        m.enabled = True
        for dt in rng.sample([R.UNSIGNED8, R.INTEGER16, R.UNSIGNED32, R.INTEGER8, R.UNSIGNED16], 2):
            m.add_variable(gen.TYPE_INDEX_BASE + dt, 0)
        # bit fields too: a flag and a nibble (written through the shift/mask path, at odd offsets)
        m.add_variable(gen.TYPE_INDEX_BASE + R.BOOLEAN, 0, 1)
        m.add_variable(gen.TYPE_INDEX_BASE + R.UNSIGNED8, 0, 3)
        if rng.random() < 0.5:
            m.add_variable(gen.TYPE_INDEX_BASE + R.UNSIGNED16, 0)            # a full-size object after them: off a byte border
    exp = Expect()
    ops = []
    flavour = "modifiable-kernel-copy" if mod == "copy" else "fixed-restartable" if mod == "restartable" else "modifiable" if mod else "fixed"
    direction = "usual-direction" if usual else "unusual-direction"

    def case():
        return {"history": hid, "flavour": flavour, "pdo_maps": direction, "ops": ops[-12:]}

    def compare(after):
        wm, ws = exp.table(cob)
        gm, gs = live(mst), live(sst)
        ctx.count("table_comparisons")
        for who, want, got in (("master", wm, gm), ("slave", ws, gs)):
            if want == got:
                continue
            known_ids = {(0x80, False), (0x700 + K, True), (0x700 + K, False), (cob["local"], False), (cob["remote"], False)}
            strays = [t for t in got if (t[0], t[3]) not in known_ids]
            if strays:
                ctx.violation("task-on-an-id-no-producer-has", f"after {after}: {who} still runs tasks {strays} on ids that belong to no producer any more "
                              f"(an earlier task kept transmitting after a restart)", case())
            # classify by producer
            for prod, ids in (("sync", [(0x80, False)]), ("guarding", [(0x700 + K, True)]), ("heartbeat", [(0x700 + K, False)]),
                              ("pdo", [(cob["local"], False), (cob["remote"], False)])):
                w = [t for t in want if (t[0], t[3]) in ids]
                g = [t for t in got if (t[0], t[3]) in ids]
                if w == g:
                    continue
                if len(g) > len(w) and len(g) > 1:
                    mech = f"more-than-one-task:{prod}"
                elif len(g) > len(w):
                    mech = f"task-still-running:{prod}"
                elif len(g) < len(w):
                    mech = f"task-not-running:{prod}"
                elif [t[1] for t in g] != [t[1] for t in w]:
                    mech = f"stale-payload:{prod}:{flavour}"
                elif [t[2] for t in g] != [t[2] for t in w]:
                    mech = f"wrong-period:{prod}"
                elif [t[4] for t in g] != [t[4] for t in w]:
                    mech = f"frame-format-changed:{prod}"
                else:
                    mech = f"task-mismatch:{prod}"
                ctx.violation(mech, f"after {after}: live tasks of {who} for {prod} = {g}, expected {w}", case())
        return wm == gm and ws == gs

    for step in range(desc["length"]):
        r = rng.random()
        try:
            if r < 0.14:
                p = rng.choice([None, 0.01, 0.1, 0.5, 1.0, 0])
                running = exp.sync is not None
                if p == 0:
                    # an invalid period is refused; afterwards nothing may run with a period the producer does not have
                    ops.append(("sync.start", 0))
                    ctx.case(("sync.start-invalid", running, flavour), nontrivial=running)
                    try:
                        mnet.sync.start(0)
                        ctx.violation("start-without-period-accepted:sync", "sync.start(0) did not raise", case())
                    except ValueError:
                        pass
                    live_sync = [t for t in live(mst) if t[0] == 0x80]
                    if live_sync and live_sync[0][2] != mnet.sync.period:
                        ctx.violation("task-period-differs-from-producer:sync",
                                      f"after the refused start(0) a SYNC task runs with period {live_sync[0][2]} while sync.period is {mnet.sync.period!r}", case())
                    exp.sync = live_sync[0][2] if len(live_sync) == 1 and live_sync[0][2] == mnet.sync.period else None
                    exp.sync_period = mnet.sync.period or None
                    if not compare(ops[-1]):
                        break
                    continue
                ops.append(("sync.start", p))
                ctx.case(("sync.start", running, p is None, flavour), nontrivial=running)
                known = p if p is not None else exp.sync_period
                try:
                    mnet.sync.start(p)
                    if known is None:
                        ctx.violation("start-without-period-accepted:sync", "sync.start() without any period did not raise", case())
                    exp.sync_period = known
                    exp.sync = known
                except ValueError:
                    if known is not None:
                        ctx.violation("start-raised:sync", f"sync.start({p}) raised ValueError although a period is known", case())
            elif r < 0.2:
                ops.append(("sync.stop",))
                ctx.case(("sync.stop", exp.sync is not None, flavour), nontrivial=exp.sync is not None)
                mnet.sync.stop()
                exp.sync = None
            elif r < 0.34:
                which = rng.choice(["local", "remote"])
                p = rng.choice([None, 0.02, 0.2, 1.5])
                running = exp.pdo[which] is not None
                ops.append(("pdo.start", which, p))
                ctx.case(("pdo.start", running, p is None, flavour, direction), nontrivial=running)
                try:
                    maps[which].start(p)
                    if p is not None:
                        exp.pdo_period[which] = p
                    if exp.pdo_period[which] is None:
                        ctx.violation("start-without-period-accepted:pdo", "map.start() without any period did not raise", case())
                    exp.pdo[which] = (bytes(maps[which].data), exp.pdo_period[which])
                except ValueError:
                    if p is not None or exp.pdo_period[which] is not None:
                        ctx.violation("start-raised:pdo", f"map.start({p}) raised ValueError", case())
                    exp.pdo[which] = None
            elif r < 0.37 and exp.pdo[rng.choice(["local", "remote"])] is not None:
                which = "local" if exp.pdo["local"] is not None else "remote"
                new_cob = cob[which] ^ 0x40
                p = rng.choice([None, exp.pdo_period[which], 0.7])
                ops.append(("pdo.readdress+start", which, hex(new_cob), p))
                ctx.case(("pdo.restart-new-id", p is None, flavour), nontrivial=True)
                maps[which].cob_id = new_cob
                maps[which].start(p)
                cob[which] = new_cob
                if p is not None:
                    exp.pdo_period[which] = p
                exp.pdo[which] = (bytes(maps[which].data), exp.pdo_period[which])
            elif r < 0.385 and exp.pdo[rng.choice(["local", "remote"])] is not None:
                # the payload returns to an earlier one across a stop/start: A (running), stop, B, start, A again
                which = "local" if exp.pdo["local"] is not None else "remote"
                var = rng.choice(list(maps[which]))
                lo, hi = field_range(var)
                a, b = rng.sample(sorted({0, 1, hi, lo}), 2)
                ops.append(("pdo.payload-recurs-across-restart", which, var.name, a, b))
                ctx.case(("pdo.payload-recurs-across-restart", flavour, direction), nontrivial=True)
                var.raw = a
                maps[which].stop()
                var.raw = b
                maps[which].start(exp.pdo_period[which])
                var.raw = a
                exp.pdo[which] = (bytes(maps[which].data), exp.pdo_period[which])
            elif r < 0.4:
                which = rng.choice(["local", "remote"])
                ops.append(("pdo.stop", which))
                ctx.case(("pdo.stop", exp.pdo[which] is not None, flavour), nontrivial=exp.pdo[which] is not None)
                maps[which].stop()
                exp.pdo[which] = None
            elif r < 0.52:
                which = rng.choice(["local", "remote"])
                var = rng.choice(list(maps[which]))
                lo, hi = field_range(var)
                v = rng.randint(lo, hi) if rng.random() < 0.4 else rng.choice([0, 1, hi])     # payloads recur (A, B, A, ...)
                ops.append(("pdo.assign", which, var.name, v))
                ctx.case(("pdo.assign", exp.pdo[which] is not None, flavour), nontrivial=exp.pdo[which] is not None)
                var.raw = v
                if exp.pdo[which] is not None:
                    exp.pdo[which] = (bytes(maps[which].data), exp.pdo[which][1])
            elif r < 0.56:
                which = rng.choice(["local", "remote"])
                ops.append(("pdo.update", which))
                ctx.case(("pdo.update", exp.pdo[which] is not None, flavour), nontrivial=exp.pdo[which] is not None)
                maps[which].update()
                if exp.pdo[which] is not None:
                    exp.pdo[which] = (bytes(maps[which].data), exp.pdo[which][1])
            elif r < 0.66:
                t = rng.choice([0, 0, 10, 100, 1000, 65535, 1])
                via = rng.choice(["local", "bus"])
                ops.append(("write-0x1017", via, t))
                ctx.case(("hb.write", exp.hb is not None, t == 0, via, flavour), nontrivial=exp.hb is not None)
                if via == "local":
                    local.sdo[0x1017].raw = t
                else:
                    remote.sdo[0x1017].raw = t
                exp.od_ms = t
                exp.hb = t / 1000.0 if t > 0 else None
            elif r < 0.68:
                # a write to the heartbeat time object that the node refuses (wrong length) changes nothing
                t = rng.choice([0, 50, 1000])
                via = rng.choice(["local", "bus"])
                nbytes = rng.choice([1, 3, 4])
                data = (t & ((1 << 8 * nbytes) - 1)).to_bytes(nbytes, "little")
                ops.append(("refused-write-0x1017", via, data.hex()))
                ctx.case(("hb.refused-write", exp.hb is not None, t == 0, via, flavour), nontrivial=True)
                from canopen.sdo.exceptions import SdoAbortedError
                try:
                    (local.sdo if via == "local" else remote.sdo).download(0x1017, 0, data)
                    ctx.violation("wrong-length-write-accepted:0x1017", f"a {len(data)}-byte write to the UNSIGNED16 heartbeat time was accepted", case())
                except SdoAbortedError:
                    pass
            elif r < 0.74:
                name = rng.choice(sorted(NAME_CMD))
                ops.append(("slave.state", name))
                ctx.case(("hb.slave-state", exp.hb is not None, name, flavour), nontrivial=exp.hb is not None)
                old = exp.state
                local.nmt.state = name
                exp.state = STATE_BY_CMD[NAME_CMD[name]]
                if old == 0 and exp.state == 127:
                    # the service (re)starts from the heartbeat time object 0x1017 on this transition
                    ms = exp.od_ms
                    exp.hb = ms / 1000.0 if ms > 0 else None
            elif r < 0.82:
                name = rng.choice(sorted(NAME_CMD))
                who = rng.choice(["node", "broadcast"])
                ops.append(("master.state", who, name))
                ctx.case(("hb.master-command", exp.hb is not None, name, flavour), nontrivial=exp.hb is not None)
                if who == "node":
                    remote.nmt.state = name
                else:
                    mnet.nmt.state = name
                exp.state = STATE_BY_CMD[NAME_CMD[name]]
            elif r < 0.87:
                ms = rng.choice([0, 5, 250, 2000])
                ops.append(("start_heartbeat", ms))
                ctx.case(("hb.start", exp.hb is not None, ms == 0, flavour), nontrivial=exp.hb is not None)
                local.nmt.start_heartbeat(ms)
                exp.hb = ms / 1000.0 if ms > 0 else None
            elif r < 0.9:
                ops.append(("stop_heartbeat",))
                ctx.case(("hb.stop", exp.hb is not None, flavour), nontrivial=exp.hb is not None)
                local.nmt.stop_heartbeat()
                exp.hb = None
            elif r < 0.95:
                p = rng.choice([0.05, 0.3, 1.0])
                ops.append(("start_node_guarding", p))
                ctx.case(("guard.start", exp.guard is not None, flavour), nontrivial=exp.guard is not None)
                remote.nmt.start_node_guarding(p)
                exp.guard = p
            elif r < 0.97:
                ops.append(("stop_node_guarding",))
                ctx.case(("guard.stop", exp.guard is not None, flavour), nontrivial=exp.guard is not None)
                remote.nmt.stop_node_guarding()
                exp.guard = None
            else:
                ops.append(("tick",))
                mark = len(bus.log)
                # RPDO frames transmitted by the master would be received by the slave's RPDO map - harmless here
                bus.tick()
                ctx.count("ticks")
                sent = sorted((f.can_id, b"" if f.rtr else f.data, f.rtr) for f in list(bus.log)[mark:]
                              if not (0x580 <= f.can_id <= 0x67F))
                wm, ws = exp.table(cob)
                want = sorted((t[0], t[1], t[3]) for t in wm + ws)
                ctx.case(("tick", len(want), flavour), nontrivial=len(want) > 0)
                if sent != want:
                    ctx.violation(f"tick-transmits-wrong-frames:{flavour}", f"one period transmitted {sent}, expected {want}", case())
        except Exception as exc:  # noqa: BLE001
            ctx.violation(f"periodic-api-raised:{type(exc).__name__}:{ops[-1][0]}", f"{ops[-1]} raised {type(exc).__name__}: {exc}", case())
            break
        if not compare(ops[-1]):
            break
    else:
        # ---- disconnect: no PDO task of any node may be live when the bus is shut down
        for net, st, who in ((mnet, mst, "master"), (snet, sst, "slave")):
            ops.append(("disconnect", who))
            try:
                net.disconnect()
            except Exception as exc:  # noqa: BLE001
                ctx.violation(f"disconnect-raised:{type(exc).__name__}", f"{who}.disconnect() raised {exc!r}", case())
                continue
            ctx.count("disconnects")
            ctx.case(("disconnect", who, exp.pdo["remote" if who == "master" else "local"] is not None, flavour, direction),
                     nontrivial=exp.pdo["remote" if who == "master" else "local"] is not None)
            pdo_live = [t for t in (st.live_at_shutdown or []) if t["can_id"] in (cob["local"], cob["remote"])]
            if st.shutdown_calls != 1:
                ctx.violation("disconnect-no-shutdown", f"{who}.disconnect() called bus.shutdown() {st.shutdown_calls} times", case())
            if pdo_live:
                ctx.violation("pdo-task-live-at-disconnect", f"PDO tasks still running when {who}'s bus was shut down: {pdo_live}", case())
            if st.tasks:
                ctx.violation("task-live-after-disconnect", f"tasks survive {who}.disconnect(): {live(st)}", case())
    if len(ctx.samples) < 3:
        ctx.sample({"history": hid, "flavour": flavour, "ops": ops[:14], "final_tables": [str(t) for t in exp.table(cob)]})
    bus.close()


def run(ctx, desc):
    rigs.LogCapture()
    rng = random.Random(repr(("c17", desc["cs"])))
    for h in range(desc["histories"]):
        history(ctx, rng, desc, f"{desc['cs']}-{h}")


def replay(ctx, case):
    ctx.case(("replay",))
    ctx.inconc("history witness: re-run the shard with the same seed", case)
