"""C16 - the EMCY consumer's log and active list mirror the received history.

RemoteNode.emcy is fed by an external station and by the real EmcyProducer of a
LocalNode on another network.  Oracle: reference model of log / active /
callback order; exhaustive check of the error-class description for all 65536
codes against an own transcription of the CiA 301 table; waits with an
instrumented condition (frames delivered one at a time after the waiter blocks).
"""
from __future__ import annotations

import random
import struct
import time

from canmon import gen, perturb, rigs, simbus, waits

ID = "C16"
LEVEL = "exploration"
RULE = ("random histories of EMCY frames (codes over the 16-bit range biased to class boundaries xx00/xxFF and reset codes "
        "00xx, registers 0..255, 0..5 data bytes) interleaved with consumer reset(), from an external station and from the "
        "real producer, delivered inline and from a dispatcher thread; after every frame log/active/callback order are "
        "compared with a reference model; description table: all 65536 codes; waits with and without code filter. "
        "Signature = (op kind, code class, active-list state class); non-trivial = history has at least one reset.")
RULE += (" " + 'Widened later: time stamps 0, byte-identical repeats, trickle of non-matching frames (early give-up), arrival race and waiter-held-after-critical-section under schedule control, callbacks that wait for the waiter, stale matching entry before a filtered wait.')
RULE += (" " + "Widened later: long histories (700 / 3000 frames on one consumer without a consumer reset).")
ASSUMPTIONS = ["EMCY frames are 8 bytes (other lengths are not EMCY objects)",
               "descriptions are compared by class keyword, not by exact wording",
               "waits: frames are delivered one at a time after the waiter is inside wait() (the property quantifies over histories, not bursts)"]
REQUIRED = {"frames_compared": 1000, "descriptions_checked": 65536, "wait_cases": 10, "producer_frames": 100}
EXHAUSTIVE = ["error class description of all 65536 EMCY codes"]

# own transcription of the CiA 301 emergency error code classes: high byte -> keyword of the class text
CLASS_KEYWORD = {0x00: "reset", 0x10: "generic", 0x20: "current", 0x21: "current", 0x22: "current", 0x23: "current",
                 0x30: "voltage", 0x31: "voltage", 0x32: "voltage", 0x33: "voltage", 0x40: "temperature", 0x41: "temperature",
                 0x42: "temperature", 0x50: "hardware", 0x60: "software", 0x61: "software", 0x62: "software", 0x63: "software",
                 0x70: "modules", 0x80: "monitoring", 0x81: "monitoring", 0x82: "monitoring", 0x90: "external",
                 0xF0: "functions", 0xFF: "specific"}
NIBBLE_KEYWORD = {0x0: "reset", 0x1: "generic", 0x2: "current", 0x3: "voltage", 0x4: "temperature", 0x5: "hardware",
                  0x6: "software", 0x7: "modules", 0x8: "monitoring", 0x9: "external", 0xF: None}
K = 6


def plan(tier, seed):
    shards = [{"kind": "descriptions"}]
    n = 6
    shards += [{"kind": "histories", "count": 40 if tier == "quick" else 1200, "length": 40 if tier == "quick" else 120,
                "cs": seed * 100 + i, "threaded": i % 3 == 2} for i in range(n)]
    # long-running consumers: the log keeps one entry per frame however many there are
    shards += [{"kind": "histories", "count": 2 if tier == "quick" else 12, "length": 700 if tier == "quick" else 3000,
                "cs": seed * 100 + 50, "threaded": False, "no_reset": True}]
    shards += [{"kind": "waits", "rounds": 6 if tier == "quick" else 40, "cs": seed}]
    return shards


def random_code(rng):
    r = rng.random()
    if r < 0.25:
        return rng.choice([0x0000, 0x0001, 0x00FF, 0x0010, 0x0080])                      # error reset codes 00xx
    if r < 0.6:
        hi = rng.choice(list(CLASS_KEYWORD) + [0x01, 0x0F, 0x11, 0xFE])
        return (hi << 8) | rng.choice([0x00, 0xFF, 0x01, 0x80, rng.randrange(256)])
    return rng.randrange(0x10000)


def run_descriptions(ctx):
    from canopen.emcy import EmcyError
    for code in range(0x10000):
        e = EmcyError(code, 0, b"", 0.0)
        desc = e.get_desc()
        ctx.count("descriptions_checked")
        hi = code >> 8
        low = desc.lower()
        if hi in CLASS_KEYWORD:
            ok = CLASS_KEYWORD[hi] in low
            cls = "defined"
        else:
            kw = NIBBLE_KEYWORD.get(hi >> 4)
            ok = desc == "" or (kw is not None and kw in low) or (hi >> 4 == 0xF and ("functions" in low or "specific" in low))
            cls = "undefined"
        ctx.case(("description", hi if hi in CLASS_KEYWORD else "u%x" % (hi >> 4)), nontrivial=True)
        if not ok:
            ctx.violation(f"emcy-description:{cls}", f"code {code:#06x} is described as {desc!r}", {"code": code})
        if str(e).split(",")[0] != f"Code 0x{code:04X}":
            ctx.violation("emcy-str", f"str(EmcyError({code:#x})) = {str(e)!r}", {"code": code})
    ctx.sample({"workload": "descriptions", "0x2310": EmcyError(0x2310, 0, b"", 0).get_desc(), "0x8130": EmcyError(0x8130, 0, b"", 0).get_desc()})


class Model:
    def __init__(self):
        self.log, self.active = [], []

    def frame(self, code, register, data5, ts):
        entry = (code, register, data5, ts)
        if code & 0xFF00 == 0:
            self.active = []
        else:
            self.active.append(entry)
        self.log.append(entry)

    def reset(self):
        self.log, self.active = [], []


def entries(lst):
    return [(e.code, e.register, bytes(e.data), e.timestamp) for e in lst]


def run_histories(ctx, desc):
    import canopen
    rng = random.Random(repr(("c16", desc["cs"])))
    pert = perturb.Perturb(seed=desc["cs"], p_yield=0.05).start() if desc["threaded"] else None
    for h in range(desc["count"]):
        bus = simbus.SimBus(mode="threaded" if desc["threaded"] else "inline", seed=desc["cs"] + h, max_delay=0.0003)
        cnet, cst = simbus.make_network(bus, "consumer")
        pnet, pst = simbus.make_network(bus, "producer")
        ext = bus.actor_station("ext")
        node = cnet.add_node(canopen.RemoteNode(K, gen.typed_od(rpdos=(), tpdos=())))
        other = cnet.add_node(canopen.RemoteNode(K + 1, gen.typed_od(rpdos=(), tpdos=())))
        local = pnet.create_node(canopen.LocalNode(K, gen.typed_od(rpdos=(), tpdos=())))
        cb_log = []
        for name in ("cb0", "cb1", "cb2"):
            node.emcy.add_callback(lambda e, name=name: cb_log.append((name, e.code, e.register, bytes(e.data), e.timestamp)))
        model = Model()
        cb_model = []
        ops = []
        had_reset = False
        for step in range(desc["length"]):
            r = rng.random()
            if r < 0.08 and not desc.get("no_reset"):
                ops.append(("consumer.reset",))
                bus.quiesce()
                node.emcy.reset()
                model.reset()
                ctx.case(("reset", len(model.log) > 0))
            elif r < 0.65:
                code, reg = random_code(rng), rng.randrange(256)
                data = bytes(rng.getrandbits(8) for _ in range(5))
                target = K if rng.random() < 0.85 else K + 1
                if ops and ops[-1][0] == "frame" and rng.random() < 0.2:
                    # a device reports the very same error again, byte for byte: another entry like any other
                    code, reg, data, target = int(ops[-1][1], 16), ops[-1][2], bytes.fromhex(ops[-1][3]), ops[-1][4]
                ops.append(("frame", hex(code), reg, data.hex(), target))
                if rng.random() < 0.15 and not desc["threaded"]:
                    # interfaces without hardware timestamps report 0.0 (or an int 0) for every frame; the entry keeps it
                    ts = rng.choice([0.0, 0, 1e-9, 0.5])
                    ops[-1] = ops[-1] + ("timestamp", ts)
                    cnet.notify(0x80 + target, bytearray(struct.pack("<HB5s", code, reg, data)), ts)
                else:
                    ts = ext.send(0x80 + target, struct.pack("<HB5s", code, reg, data)).ts
                if target == K:
                    model.frame(code, reg, data, ts)
                    cb_model += [(n, code, reg, data, ts) for n in ("cb0", "cb1", "cb2")]
                    had_reset |= code & 0xFF00 == 0
                ctx.case(("frame", "reset" if code & 0xFF00 == 0 else "error", "active" if model.active else "empty", "own" if target == K else "other"),
                         nontrivial=had_reset)
            else:
                code, reg = random_code(rng), rng.randrange(256)
                data = bytes(rng.getrandbits(8) for _ in range(rng.randint(0, 5)))
                if rng.random() < 0.2:
                    ops.append(("producer.reset", reg, data.hex()))
                    local.emcy.reset(reg, data)
                    code = 0
                else:
                    ops.append(("producer.send", hex(code), reg, data.hex()))
                    local.emcy.send(code, reg, data)
                sent = [f for f in bus.log if f.src == "producer"]
                f = sent[-1]
                ctx.count("producer_frames")
                if f.can_id != 0x80 + K or f.data != struct.pack("<HB5s", code, reg, data.ljust(5, b"\x00")):
                    ctx.violation("producer-frame", f"producer sent {f.brief()} for code {code:#x} register {reg} data {data.hex()}", {"ops": ops[-6:]})
                model.frame(code, reg, data.ljust(5, b"\x00"), f.ts)
                cb_model += [(n, code, reg, data.ljust(5, b"\x00"), f.ts) for n in ("cb0", "cb1", "cb2")]
                had_reset |= code == 0
                ctx.case(("producer", "reset" if code & 0xFF00 == 0 else "error", len(data)), nontrivial=had_reset)
            if not bus.quiesce():
                ctx.inconc("bus did not quiesce", {"ops": ops[-6:]})
                break
            ctx.count("frames_compared")
            case = {"history": f"{desc['cs']}-{h}", "threaded": desc["threaded"], "ops": ops[-12:]}
            if entries(node.emcy.log) != model.log:
                ctx.violation("emcy-log-mismatch", f"log {entries(node.emcy.log)[-4:]} vs model {model.log[-4:]} (len {len(node.emcy.log)}/{len(model.log)})", case)
                break
            if entries(node.emcy.active) != model.active:
                ctx.violation("emcy-active-mismatch", f"active {entries(node.emcy.active)[-4:]} vs model {model.active[-4:]} (len {len(node.emcy.active)}/{len(model.active)})", case)
                break
            if cb_log != cb_model:
                ctx.violation("emcy-callbacks-mismatch", f"callback log tail {cb_log[-4:]} vs model {cb_model[-4:]} (len {len(cb_log)}/{len(cb_model)})", case)
                break
            if other.emcy.log and any(e.code is None for e in other.emcy.log):
                pass
        if len(ctx.samples) < 2:
            ctx.sample({"history": ops[:8], "log_len": len(model.log), "active_len": len(model.active)})
        bus.close()
    if pert:
        pert.stop()
        ctx.add("yields_injected", pert.report()["yields_injected"])


def run_waits(ctx, desc):
    import canopen
    rng = random.Random(repr(("c16w", desc["cs"])))
    for rnd in range(desc["rounds"]):
        bus = simbus.SimBus(mode="inline")
        cnet, cst = simbus.make_network(bus, "consumer")
        ext = bus.actor_station("ext")
        node = cnet.add_node(canopen.RemoteNode(K, gen.typed_od(rpdos=(), tpdos=())))
        cond = waits.SignallingCondition()
        node.emcy.emcy_received = cond

        def send(code, reg=1):
            return ext.send(0x80 + K, struct.pack("<HB5s", code, reg, b"\x01\x02\x03\x04\x05"))
        # 1. no filter: next entry is returned
        code = random_code(rng)
        status, val = waits.run_waiter(lambda: node.emcy.wait(None, 40), cond, lambda: send(code))
        ctx.count("wait_cases")
        ctx.case(("wait-nofilter",))
        case = {"workload": "waits", "kind": "no-filter", "code": code}
        if status in ("hung", "never-waited"):
            ctx.inconc(f"emcy.wait: {status}", case)
        elif status == "not-woken":
            ctx.violation("waiter-not-woken", "the EMCY frame was delivered but the caller waiting in wait() was not woken", case)
        elif status != "returned" or val is None or val.code != code or val is not node.emcy.log[-1]:
            ctx.violation("emcy-wait-nofilter", f"wait() ended {status} with {val!r} after frame {code:#x}", case)
        # 1b. the frame is being received at the very moment the wait begins (receiver held where it takes the consumer's
        #     lock until the waiter is parked): it is processed after the wait began, so the waiter is handed it
        code_b = random_code(rng)
        status, val = waits.arrival_race(cond, lambda: send(code_b, 3), lambda: node.emcy.wait(None if rnd % 2 else code_b, 40))
        ctx.count("wait_cases")
        ctx.case(("wait-arrival-race", rnd % 2))
        case = {"workload": "waits", "kind": "arrival-race", "code": code_b}
        if status in ("hung", "never-waited", "receiver-never-arrived"):
            ctx.inconc(f"emcy.wait arrival race: {status}", case)
        elif status != "returned" or val is None or val.code != code_b or val.register != 3:
            ctx.violation("emcy-wait-missed-frame-arriving-as-the-wait-begins", f"a frame processed right after the wait had begun: wait() ended {status} with {val!r}", case)
        # 1c. application callbacks that take their time must not keep the entry from the waiter: the callback waits (up
        #     to 15 s) for the waiter to come back
        import threading as _th
        came_back = _th.Event()
        seen_by_cb = {}

        def slow_cb(entry):
            if "armed" in seen_by_cb:
                seen_by_cb["waiter_back_before_callback_ended"] = came_back.wait(15.0)
        node.emcy.add_callback(slow_cb)
        seen_by_cb["armed"] = True

        def waited():
            try:
                return node.emcy.wait(None, 40)
            finally:
                came_back.set()
        code_c = random_code(rng)
        status, val = waits.run_waiter(waited, cond, lambda: send(code_c, 4))
        seen_by_cb.pop("armed", None)
        node.emcy.callbacks.remove(slow_cb)
        ctx.count("wait_cases")
        ctx.case(("wait-with-slow-callback",))
        case = {"workload": "waits", "kind": "slow-callback", "code": code_c}
        if status in ("hung", "never-waited"):
            ctx.inconc(f"emcy.wait with a slow callback: {status}", case)
        elif seen_by_cb.get("waiter_back_before_callback_ended") is False:
            ctx.violation("emcy-waiter-held-up-by-callbacks", "the entry was logged and the waiter notified, but it could not return while an application "
                          "callback was still running (15 s)", case)
        elif status != "returned" or val is None or val.code != code_c:
            ctx.violation("emcy-wait-nofilter", f"wait() ended {status} with {val!r} after frame {code_c:#x}", case)
        # 1d. the waiter is held right after it has left its critical section, and another frame is logged meanwhile: the
        #     entry it is handed is still the one it was woken for
        import threading as _th2
        gate = {"hold": "waiter", "waiter": None, "armed": False, "left": _th2.Event(), "go": _th2.Event(), "max": 20.0}
        cond.exit_gate = gate
        code_d, code_e = random_code(rng) | 0x1000, random_code(rng) | 0x2000

        def held_wait():
            gate["waiter"] = _th2.get_ident()
            return node.emcy.wait(None, 40)

        def first_then_second():
            gate["armed"] = True
            send(code_d, 1)
            if gate["left"].wait(15.0):
                send(code_e, 2)
            gate["go"].set()
        status, val = waits.run_waiter(held_wait, cond, first_then_second)
        cond.exit_gate = None
        ctx.count("wait_cases")
        ctx.case(("wait-held-after-critical-section",))
        case = {"workload": "waits", "kind": "held-after-critical-section", "first": code_d, "second": code_e}
        if status in ("hung", "never-waited"):
            ctx.inconc(f"emcy.wait held after its critical section: {status}", case)
        elif status != "returned" or val is None or val.code != code_d or val.register != 1:
            ctx.violation("emcy-wait-handed-a-later-entry", f"woken by frame {code_d:#x}; a second frame {code_e:#x} was logged right after the waiter had left its "
                          f"critical section; wait() ended {status} with code {getattr(val, 'code', None)!r}", case)
        # 2. filter: a non-matching frame first, then the matching one
        for want in (0x0000, rng.choice([0x8130, 0x2310, 0xFF01, 0x00FF])):
            wrong = want ^ 0x0100

            def deliver():
                n = cond.waits
                send(wrong)
                cond.reentered(n)       # the waiter has looked at the first frame and waits again (or has returned)
                send(want, 7)
            status, val = waits.run_waiter(lambda: node.emcy.wait(want, 40), cond, deliver)
            ctx.count("wait_cases")
            ctx.case(("wait-filter", hex(want)))
            case = {"workload": "waits", "kind": "filter", "want": want, "first": wrong}
            if status in ("hung", "never-waited"):
                ctx.inconc(f"emcy.wait(filter): {status}", case)
            elif status != "returned" or val is None or val.code != want or val.register != 7:
                ctx.violation("emcy-wait-filter", f"wait({want:#x}) ended {status} with {val!r} (code {getattr(val, 'code', None)})", case)
        # 3. nothing arrives: None after the time-out
        status, val = waits.run_waiter(lambda: node.emcy.wait(None, 0.03), cond, None)
        ctx.count("wait_cases")
        ctx.case(("wait-timeout",))
        if status in ("hung", "never-waited"):
            ctx.inconc(f"emcy.wait timeout: {status}", {"kind": "timeout"})
        elif status != "returned" or val is not None:
            ctx.violation("emcy-wait-timeout", f"nothing arrived, wait() ended {status} with {val!r}", {"kind": "timeout"})
        # 3b. a frame that arrived before the wait started is not "the next entry"
        send(0x5000)
        status, val = waits.run_waiter(lambda: node.emcy.wait(None, 0.03), cond, None)
        ctx.count("wait_cases")
        ctx.case(("wait-after-stale",))
        if status in ("hung", "never-waited"):
            ctx.inconc(f"emcy.wait after stale: {status}", {"kind": "stale"})
        elif status != "returned" or val is not None:
            ctx.violation("emcy-wait-satisfied-by-earlier-frame", f"a frame arrived before the wait and nothing after, wait() ended {status} with {val!r}", {"kind": "stale"})
        # 3c. several callers wait at once (one unfiltered, one filtered): one frame serves them all
        code2 = rng.choice([0x3210, 0x8130, 0x0000])
        res = waits.run_waiters([lambda: node.emcy.wait(None, 40), lambda: node.emcy.wait(code2, 40), lambda: node.emcy.wait(None, 40)],
                                cond, lambda: send(code2, 9))
        ctx.count("wait_cases")
        ctx.case(("wait-several-waiters", hex(code2)))
        for i, (status, val) in enumerate(res):
            if status in ("hung", "never-waited"):
                ctx.inconc(f"emcy.wait with several waiters: {status}", {"kind": "several", "waiter": i})
            elif status == "not-woken":
                ctx.violation("waiter-not-woken:several-waiters", f"waiter {i} of 3 was not woken by the frame that arrived while it waited", {"kind": "several", "waiter": i})
            elif status != "returned" or val is None or val.code != code2 or val.register != 9:
                ctx.violation("emcy-wait-several-waiters", f"waiter {i} of 3 ended {status} with {val!r} after frame {code2:#x}", {"kind": "several", "waiter": i})
        # 3d. a matching frame that arrives after the caller's deadline is not handed out any more
        if rnd == 0:
            import time as _t
            T = 0.8
            entered = {}

            def late_delivery():
                entered["t"] = _t.time()
                n = cond.waits
                _t.sleep(0.5 * T)
                send(0x1111)                      # a non-matching frame before the deadline restarts the condition wait
                cond.reentered(n, 1.0)
                _t.sleep(max(0.0, entered["t"] + 1.25 * T - _t.time()))
                send(0x2222, 5)                   # the matching frame, but later than the caller was willing to wait
            status, val = waits.run_waiter(lambda: node.emcy.wait(0x2222, T), cond, late_delivery, grace=3 * T + 2)
            ctx.count("wait_cases")
            ctx.case(("wait-deadline",))
            if status in ("hung", "never-waited", "not-woken"):
                ctx.inconc(f"emcy.wait deadline: {status}", {"kind": "deadline"})
            elif status != "returned" or val is not None:
                ctx.violation("emcy-wait-after-deadline", f"wait(0x2222, {T}) returned {val!r} for a frame that arrived {1.25 * T:.2f} s after the call started", {"kind": "deadline"})
        # 3e. "nothing on time-out" means nothing *after* the time-out: non-matching frames must not use up the
        #     caller's time.  The call is timed inside the waiting thread (exact, independent of scheduling).
        if rnd == 0:
            import time as _t
            T = 3.0
            timing = {}

            def timed_wait():
                timing["t0"] = _t.time()
                try:
                    return node.emcy.wait(0x3333, T)
                finally:
                    timing["t1"] = _t.time()

            def trickle():
                for i in range(5):
                    n = cond.waits
                    _t.sleep(0.2)
                    if "t1" in timing:
                        return
                    send(0x4000 + i)
                    cond.reentered(n, 1.0)
                _t.sleep(0.3)
                if "t1" not in timing:
                    send(0x3333, 6)                  # the matching frame, about 1.3 s into a 3 s wait
            status, val = waits.run_waiter(timed_wait, cond, trickle, grace=T + 3)
            ctx.count("wait_cases")
            ctx.case(("wait-several-nonmatching-then-match",))
            case = {"workload": "waits", "kind": "several-nonmatching", "timeout": T, "call_lasted": timing.get("t1", 0) - timing.get("t0", 0)}
            if status in ("hung", "never-waited", "not-woken"):
                ctx.inconc(f"emcy.wait several non-matching: {status}", case)
            elif status == "returned" and val is None and timing["t1"] - timing["t0"] < T:
                ctx.violation("emcy-wait-gave-up-before-its-time-out", f"wait(0x3333, {T}) returned None after {timing['t1'] - timing['t0']:.2f} s "
                              "while non-matching frames kept arriving", case)
            elif status != "returned" or (val is not None and (val.code != 0x3333 or val.register != 6)):
                ctx.violation("emcy-wait-filter", f"wait(0x3333) ended {status} with {val!r}", case)
        # 4. only non-matching frames: None - also when the last entry logged *before* the wait has the awaited code
        send(0x1234, 8)
        status, val = waits.run_waiter(lambda: node.emcy.wait(0x1234, 0.05), cond, lambda: send(0x4321))
        ctx.count("wait_cases")
        ctx.case(("wait-filter-timeout",))
        if status in ("hung", "never-waited"):
            ctx.inconc(f"emcy.wait filter timeout: {status}", {"kind": "filter-timeout"})
        elif status != "returned" or val is not None:
            ctx.violation("emcy-wait-filter-timeout", f"only a non-matching frame arrived, wait(0x1234) ended {status} with {val!r}", {"kind": "filter-timeout"})
        bus.close()
    ctx.sample({"workload": "waits", "rounds": desc["rounds"]})


def run(ctx, desc):
    rigs.LogCapture()
    if desc["kind"] == "descriptions":
        run_descriptions(ctx)
    elif desc["kind"] == "histories":
        run_histories(ctx, desc)
    else:
        run_waits(ctx, desc)


def replay(ctx, case):
    ctx.case(("replay",))
    if "code" in case and "workload" not in case:
        from canopen.emcy import EmcyError
        ctx.sample({"code": case["code"], "desc": EmcyError(case["code"], 0, b"", 0).get_desc()})
    ctx.inconc("history witness: re-run the shard with the same seed", case)
