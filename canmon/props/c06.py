"""C06 - refused SDO accesses report the standard abort code and change nothing.

(a) real SdoServer <-> strict reference client: every refusal kind on generated
    object dictionaries; oracle = exactly one abort frame, code in the accepted
    set, multiplexer of the transfer, data_store unchanged, no write callback.
(a') the same refusals through the real client in front of the real server:
    SdoAbortedError.code equals the code on the wire.
(b) real SdoClient <-> reference server that aborts with chosen codes at every
    protocol step: SdoAbortedError.code equals the injected code.
"""
from __future__ import annotations

import copy
import random
import struct

from canmon import faults, gen, oracles, rigs
from canmon.props.c01 import payload
from canmon.props.c13 import stream_class
from canmon.ref import codec as R

ID = "C06"
LEVEL = "exploration"
RULE = ("(a) every entry of generated dictionaries x access types rw/ro/wo/const x refusal kind (read wo; write ro/const "
        "expedited+segmented; missing index; missing sub-index of a record; numeric entry x payload length 0..9 != width, "
        "expedited+segmented; entry without value; wrong toggle in upload and download segments; unknown specifier; block "
        "download), placed before / between / after successful transfers; (b) abort codes 0, 2^k, 2^k-1, every documented "
        "code and seeded random 32-bit codes injected at every protocol step of expedited, segmented and block transfers. "
        "Signature = (sub-check, refusal kind or step, type class, variant); all non-trivial.")
RULE += (" " + "Widened later: a 'locked table' scenario: the application changes the access type of an array's element declaration on a node in service (ro, const, wo, rw again); members served before and fresh members must all follow it.")
ASSUMPTIONS = ["accepted codes: wrong length {0x06070010, 0x06070012 too long, 0x06070013 too short}; no value {0x060A0023, 0x08000024}",
               "the multiplexer of an abort answering ccs=7 is not judged (bytes 1-3 of that request mean nothing)",
               "a refusal may come at initiate time or at the last segment (both name the transfer's multiplexer)",
               "sub-check (b): an abort injected at step k means the reference server really ends the transfer there"]
REQUIRED = {"refusals_judged": 300, "client_codes_compared": 1000, "real_client_refusals": 50}

ACCEPT = {
    "read-wo": {0x06010001}, "write-ro": {0x06010002}, "missing-index": {0x06020000}, "missing-sub": {0x06090011},
    "too-long": {0x06070010, 0x06070012}, "too-short": {0x06070010, 0x06070013}, "no-value": {0x060A0023, 0x08000024},
    # both conditions hold at once: the text names a code for each and no priority
    "write-ro-wrong-length": {0x06010002, 0x06070010, 0x06070012, 0x06070013},
    "toggle": {0x05030000}, "unknown-command": {0x05040001}, "block-download": {0x05040001},
}
DOCUMENTED = [0x05030000, 0x05040000, 0x05040001, 0x05040002, 0x05040003, 0x05040004, 0x05040005, 0x06010000, 0x06010001,
              0x06010002, 0x06020000, 0x06040041, 0x06040042, 0x06040043, 0x06040047, 0x06060000, 0x06070010, 0x06070012,
              0x06070013, 0x06090011, 0x06090030, 0x06090031, 0x06090032, 0x06090036, 0x060A0023, 0x08000000, 0x08000020,
              0x08000021, 0x08000022, 0x08000023, 0x08000024]


def plan(tier, seed):
    n = 8
    shards = [{"kind": "server", "ods": 4 if tier == "quick" else 100, "cs": seed * 100 + i} for i in range(n)]
    shards += [{"kind": "client", "random_codes": 600 if tier == "quick" else 40000, "cs": seed * 100 + 50 + i} for i in range(n)]
    return shards


def tclass(dt):
    return "int" if dt in R.INTEGERS else "real" if dt in R.REALS else "bool" if dt == R.BOOLEAN else "blob"


# ----------------------------------------------------------------------------- (a) server side
class SrvHarness:
    def __init__(self, ctx, model, real_client=False):
        self.ctx, self.model = ctx, model
        self.real_client = real_client
        if real_client:
            self.rig = rigs.PairRig(lambda: gen.build_od(model, 5), node_ids=(5,))
            self.node = self.rig.local
            self.client = None
        else:
            self.rig = rigs.ServerRig(gen.build_od(model, 5), 5)
            self.node = self.rig.node
            self.client = self.rig.client
        self.write_log = []
        self.node.add_write_callback(lambda **kw: self.write_log.append((kw["index"], kw["subindex"], bytes(kw["data"]))))
        self.reported = 0

    def snapshot(self):
        return copy.deepcopy(self.node.data_store), len(self.write_log)

    def unchanged(self, snap, case, kind):
        store, nlog = snap
        if self.node.data_store != store:
            self.ctx.violation(f"refused-write-changed-store:{kind}", f"data_store changed by a refused write: {store} -> {self.node.data_store}", case)
        if len(self.write_log) != nlog:
            self.ctx.violation(f"refused-write-called-callback:{kind}", f"write callback called for a refused write: {self.write_log[nlog:]}", case)

    def flush(self, case):
        if self.client is None:
            return
        for mech, msg in self.client.violations[self.reported:]:
            self.ctx.violation("wire:" + mech, msg, case, self.rig.wire(14))
        self.reported = len(self.client.violations)
        for frame, exc in self.rig.rx_errors:
            self.ctx.violation(f"server-raised-into-receive-path:{type(exc).__name__}", f"request {frame.hex()} -> {exc!r}", case)
        self.rig.rx_errors.clear()


def judge(ctx, h, kind, res, mux, case, variant):
    ctx.count("refusals_judged")
    ctx.case(("server", kind, variant, case.get("tclass"), case.get("position")))
    if res[0] != "abort":
        ctx.violation(f"not-refused:{kind}:{variant}", f"{kind} was not refused: {res}", case, h.rig.wire(14))
        return
    code, rmux = res[1], res[2]
    if code not in ACCEPT[kind]:
        ctx.violation(f"wrong-abort-code:{kind}:{variant}", f"{kind} answered with {code:#010x}, accepted {sorted(hex(c) for c in ACCEPT[kind])}", case, h.rig.wire(14))
    if kind != "unknown-command" and tuple(rmux) != tuple(mux):
        ctx.violation(f"wrong-abort-multiplexer:{kind}:{variant}", f"abort names {rmux[0]:#06x}:{rmux[1]:02x}, transfer is {mux[0]:#06x}:{mux[1]:02x}", case, h.rig.wire(14))


def good_transfer(h, rng, vars_):
    """A successful transfer in between (history placement)."""
    c = h.client
    cands = [vm for vm in vars_ if vm.access == "rw" and vm.dt in R.BLOBS]
    if not cands:
        return
    vm = rng.choice(cands)
    data = bytes(rng.getrandbits(8) for _ in range(rng.choice([1, 4, 9, 15])))
    res = c.download(vm.index, vm.sub, data)
    if res[0] == "ok" and rng.random() < 0.5:
        # (not always: an upload in between re-allocates server state and can hide what a download left behind)
        c.upload(vm.index, vm.sub)


def server_refusals(ctx, h, rng):
    c = h.client
    model = h.model
    vars_ = [vm for _, vm in model.variables()]
    position = ["first"]

    def case_of(kind, vm=None, **kw):
        d = {"sub-check": "server", "kind": kind, "position": position[0]}
        if vm is not None:
            d.update(index=vm.index, sub=vm.sub, type=R.NAMES[vm.dt], access=vm.access, tclass=tclass(vm.dt))
        d.update(kw)
        return d

    def after():
        position[0] = rng.choice(["between", "after-success", "after-success"])
        if position[0] == "after-success":
            good_transfer(h, rng, vars_)

    for o, vm in model.variables():
        mux = (vm.index, vm.sub)
        has_value = vm.default is not None or vm.value is not None
        # ---- read write-only
        if vm.access == "wo":
            case = case_of("read-wo", vm)
            judge(ctx, h, "read-wo", c.upload(*mux), mux, case, "upload")
            h.flush(case)
            after()
        # ---- read an entry without any value
        if vm.access != "wo" and not has_value and vm.sub not in h.node.data_store.get(vm.index, {}):
            case = case_of("no-value", vm)
            judge(ctx, h, "no-value", c.upload(*mux), mux, case, "upload")
            h.flush(case)
            after()
        # ---- write read-only / const
        if "w" not in vm.access:
            for mode in ("expedited", "segmented", "segmented-nosize"):
                w = R.width(vm.dt) // 8 if (vm.dt in R.NUMERIC or vm.dt == R.BOOLEAN) else rng.choice([1, 4, 9])
                if mode == "expedited" and w > 4:
                    continue
                data = bytes(rng.getrandbits(8) for _ in range(w))
                same = rng.random() < 0.4
                if same:
                    # the application has stored a value locally (a read-only entry is not read-only for the device itself);
                    # a client that writes exactly that value back is refused like any other writer
                    h.node.data_store.setdefault(vm.index, {})[vm.sub] = data
                case = case_of("write-ro", vm, mode=mode, data=data, writes_back_the_stored_value=same)
                snap = h.snapshot()
                res = c.download(*mux, data, mode="expedited" if mode == "expedited" else "segmented", size_indicated=mode != "segmented-nosize")
                judge(ctx, h, "write-ro", res, mux, case, mode)
                h.unchanged(snap, case, "write-ro")
                h.flush(case)
                after()
            if vm.dt in R.NUMERIC:
                # ... and with a payload of the wrong length on top: refused all the same, nothing stored
                w = R.width(vm.dt) // 8
                for n in sorted({max(0, w - 1), w + 1, rng.choice([x for x in range(0, 10) if x != w])}):
                    for mode in ("expedited", "segmented"):
                        if mode == "expedited" and not 1 <= n <= 4:
                            continue
                        data = bytes(rng.getrandbits(8) for _ in range(n))
                        case = case_of("write-ro-wrong-length", vm, mode=mode, data=data)
                        snap = h.snapshot()
                        res = c.download(*mux, data, mode=mode, size_indicated=rng.random() < 0.5)
                        judge(ctx, h, "write-ro-wrong-length", res, mux, case, mode)
                        h.unchanged(snap, case, "write-ro-wrong-length")
                        h.flush(case)
        # ---- numeric entry x wrong payload length
        if "w" in vm.access and vm.dt in R.NUMERIC:
            w = R.width(vm.dt) // 8
            for n in range(0, 10):
                if n == w:
                    continue
                for mode in ("expedited", "segmented"):
                    if mode == "expedited" and not 1 <= n <= 4:
                        continue
                    kind = "too-long" if n > w else "too-short"
                    data = bytes(rng.getrandbits(8) for _ in range(n))
                    case = case_of(kind, vm, mode=mode, data=data)
                    snap = h.snapshot()
                    res = c.download(*mux, data, mode=mode, size_indicated=rng.random() < 0.5)
                    judge(ctx, h, kind, res, mux, case, mode)
                    h.unchanged(snap, case, kind)
                    h.flush(case)
            after()
    # ---- missing index / missing sub-index of a record
    present = set(model.objects)
    for _ in range(6):
        idx = rng.choice([i for i in (rng.randint(1, 0xFFFF), 0x1000, 0xFFFF, 0x0001) if i not in present] or [0xFFF0])
        sub = rng.choice([0, 1, 255])
        for variant in ("upload", "download-exp", "download-seg"):
            case = case_of("missing-index", index=idx, sub=sub, variant=variant)
            snap = h.snapshot()
            if variant == "upload":
                res = c.upload(idx, sub)
            else:
                res = c.download(idx, sub, b"\x01\x02\x03\x04" if variant == "download-exp" else b"123456789")
            judge(ctx, h, "missing-index", res, (idx, sub), case, variant)
            h.unchanged(snap, case, "missing-index")
            h.flush(case)
        after()
    for index, o in model.objects.items():
        if o.kind == "array" and getattr(o, "array_style", None) != "count-only":
            continue                     # (elements of a described array exist for every sub-index 1..255)
        if o.kind == "var":
            continue
        missing = [s for s in (1, 2, 0x1F, 0x20, 0x7F, 0xFE, 0xFF) if s not in o.members]
        for sub in rng.sample(missing, min(3, len(missing))):
            for variant in ("upload", "download-exp", "download-seg"):
                case = case_of("missing-sub", index=index, sub=sub, variant=variant)
                snap = h.snapshot()
                if variant == "upload":
                    res = c.upload(index, sub)
                else:
                    res = c.download(index, sub, b"\x01\x02" if variant == "download-exp" else b"123456789")
                judge(ctx, h, "missing-sub", res, (index, sub), case, variant)
                h.unchanged(snap, case, "missing-sub")
                h.flush(case)
        after()
    # ---- wrong toggle in upload and download segments (needs a segmented transfer in progress)
    blobs = [vm for vm in vars_ if vm.access == "rw" and vm.dt in R.BLOBS]
    for vm in blobs[:4]:
        mux = (vm.index, vm.sub)
        value = bytes(rng.getrandbits(8) for _ in range(rng.choice([15, 20, 30])))
        if c.download(*mux, value)[0] != "ok":
            continue
        for nseg in (0, 1, 2):
            # upload: initiate, nseg good segments, then a segment request with the wrong toggle
            case = case_of("toggle", vm, variant=f"upload-after-{nseg}")
            r = c.exchange(struct.pack("<BHB4x", 0x40, *mux), step="ul_init")
            t = 0
            for _ in range(nseg):
                c.exchange(bytes([0x60 | (t << 4)]) + bytes(7), step="ul_seg")
                t ^= 1
            r = c.exchange(bytes([0x60 | ((t ^ 1) << 4)]) + bytes(7), step="ul_seg")
            res = c._abort_info(r, mux, "ul_seg") if r is not None and r[0] == 0x80 else ("no-abort", r)
            judge(ctx, h, "toggle", res, mux, case, "upload")
            h.flush(case)
            # download: initiate, nseg good segments, then a segment with the wrong toggle
            case = case_of("toggle", vm, variant=f"download-after-{nseg}")
            snap = h.snapshot()
            c.exchange(struct.pack("<BHBL", 0x21, mux[0], mux[1], 40), step="dl_init")
            t = 0
            for _ in range(nseg):
                c.exchange(bytes([t << 4]) + b"ABCDEFG", step="dl_seg")
                t ^= 1
            r = c.exchange(bytes([(t ^ 1) << 4]) + b"HIJKLMN", step="dl_seg")
            res = c._abort_info(r, mux, "dl_seg") if r is not None and r[0] == 0x80 else ("no-abort", r)
            judge(ctx, h, "toggle", res, mux, case, "download")
            h.unchanged(snap, case, "toggle")
            h.flush(case)
            if nseg:
                # the commonest cause of a wrong toggle bit: the previous segment arrives a second time, byte for byte
                case = case_of("toggle", vm, variant=f"download-repeated-segment-after-{nseg}")
                snap = h.snapshot()
                c.exchange(struct.pack("<BHBL", 0x21, mux[0], mux[1], 40), step="dl_init")
                t, last = 0, None
                for _ in range(nseg):
                    last = bytes([t << 4]) + rng.choice([b"ABCDEFG", bytes(7), b"\x55" * 7])
                    c.exchange(last, step="dl_seg")
                    t ^= 1
                r = c.exchange(last, step="dl_seg")
                res = c._abort_info(r, mux, "dl_seg") if r is not None and r[0] == 0x80 else ("no-abort", r)
                judge(ctx, h, "toggle", res, mux, case, "download-repeat")
                h.unchanged(snap, case, "toggle")
                h.flush(case)
        # an entry that holds the empty value is uploaded as a segmented transfer of size 0: its one segment request with the
        # wrong toggle bit is a toggle error like any other
        if c.download(*mux, b"")[0] == "ok":
            case = case_of("toggle", vm, variant="upload-of-empty-value")
            r0 = c.exchange(struct.pack("<BHB4x", 0x40, *mux), step="ul_init")
            if r0 is not None and r0[0] & 0xE2 == 0x40:          # segmented upload initiated
                r = c.exchange(bytes([0x60 | (1 << 4)]) + bytes(7), step="ul_seg")
                res = c._abort_info(r, mux, "ul_seg") if r is not None and r[0] == 0x80 else ("no-abort", r)
                judge(ctx, h, "toggle", res, mux, case, "upload-empty")
                h.flush(case)
        after()
    # ---- unknown specifier and unsupported block download
    for _ in range(4):
        frame = bytes([0xE0 | rng.getrandbits(5)]) + bytes(rng.getrandbits(8) for _ in range(7))
        case = case_of("unknown-command", frame=frame)
        snap = h.snapshot()
        r = c.exchange(frame, step="raw")
        res = c._abort_info(r, (0, 0), "raw", check_mux=False) if r is not None and r[0] == 0x80 else ("no-abort", r)
        judge(ctx, h, "unknown-command", res, (0, 0), case, "ccs7")
        h.unchanged(snap, case, "unknown-command")
        h.flush(case)
        vm = rng.choice(vars_)
        mux = (vm.index, vm.sub)
        frame = struct.pack("<BHBL", 0xC0 | rng.choice([0, 2, 4, 6]), mux[0], mux[1], rng.randint(1, 1000))
        case = case_of("block-download", vm, frame=frame)
        snap = h.snapshot()
        r = c.exchange(frame, step="bdl_init")
        res = c._abort_info(r, mux, "bdl_init") if r is not None and r[0] == 0x80 else ("no-abort", r)
        judge(ctx, h, "block-download", res, mux, case, "initiate")
        h.unchanged(snap, case, "block-download")
        h.flush(case)
        after()
    for s in c.steps_seen:
        ctx.seen("abort_steps", s)


# ----------------------------------------------------------------------------- (a') real client in front of the real server
def real_client_refusals(ctx, model, rng):
    from canopen.sdo.exceptions import SdoAbortedError
    h = SrvHarness(ctx, model, real_client=True)
    sdo = h.rig.sdo

    def attempt(kind, mux, fn, case):
        mark = len(h.rig.bus.log)
        snap = h.snapshot()
        exc = None
        try:
            fn()
        except Exception as e:  # noqa: BLE001
            exc = e
        ctx.count("real_client_refusals")
        ctx.case(("real-client", kind, case.get("variant")))
        aborts = [f for f in list(h.rig.bus.log)[mark:] if f.src == "slave" and f.can_id == h.rig.tx and f.data[0] == 0x80]
        trace = [f.brief() for f in list(h.rig.bus.log)[mark:][:20]]
        if not isinstance(exc, SdoAbortedError):
            ctx.violation(f"real-client-not-aborted:{kind}", f"{kind} through the real client ended in {exc!r}", case, trace)
            return
        wire_codes = [struct.unpack_from("<L", f.data, 4)[0] for f in aborts]
        if len(aborts) != 1:
            ctx.violation(f"abort-frame-count:{kind}", f"{len(aborts)} abort frames on the wire", case, trace)
        if exc.code not in wire_codes:
            ctx.violation(f"client-exposes-wrong-code:{kind}", f"SdoAbortedError.code {exc.code:#010x}, wire carried {[hex(c) for c in wire_codes]}", case, trace)
        if exc.code not in ACCEPT[kind]:
            ctx.violation(f"wrong-abort-code:{kind}:real-client", f"{kind} -> {exc.code:#010x}", case, trace)
        if aborts and struct.unpack_from("<HB", aborts[0].data, 1) != tuple(mux):
            ctx.violation(f"wrong-abort-multiplexer:{kind}:real-client", f"abort frame {aborts[0].data.hex()} for transfer {mux}", case, trace)
        if kind in ("write-ro", "too-long", "too-short", "missing-index", "missing-sub"):
            h.unchanged(snap, case, kind)

    for o, vm in model.variables():
        mux = (vm.index, vm.sub)
        if vm.access == "wo":
            attempt("read-wo", mux, lambda: sdo.upload(*mux), {"kind": "read-wo", "mux": mux, "variant": "upload"})
        elif vm.default is None and vm.value is None:
            attempt("no-value", mux, lambda: sdo.upload(*mux), {"kind": "no-value", "mux": mux, "variant": "upload"})
        if "w" not in vm.access:
            for force in (False, True):
                w = R.width(vm.dt) // 8 if (vm.dt in R.NUMERIC or vm.dt == R.BOOLEAN) else 3
                data = bytes(rng.getrandbits(8) for _ in range(w))
                attempt("write-ro", mux, lambda: sdo.download(*mux, data, force_segment=force),
                        {"kind": "write-ro", "mux": mux, "variant": "seg" if force or w > 4 else "exp", "data": data})
        elif vm.dt in R.NUMERIC:
            w = R.width(vm.dt) // 8
            for n in (w - 1, w + 1, 9):
                if n == w or n < 0:
                    continue
                data = bytes(rng.getrandbits(8) for _ in range(n))
                attempt("too-long" if n > w else "too-short", mux, lambda: sdo.download(*mux, data),
                        {"kind": "length", "mux": mux, "variant": f"{n}vs{w}", "data": data})
    present = set(model.objects)
    idx = next(i for i in (0x1000, 0x2FFF, 0xFFFF, 0x1234) if i not in present)
    attempt("missing-index", (idx, 0), lambda: sdo.upload(idx, 0), {"kind": "missing-index", "mux": (idx, 0), "variant": "upload"})
    attempt("missing-index", (idx, 1), lambda: sdo.download(idx, 1, b"123456789"), {"kind": "missing-index", "mux": (idx, 1), "variant": "download-seg"})
    attempt("missing-index", (idx, 2), lambda: sdo.download(idx, 2, b"12"), {"kind": "missing-index", "mux": (idx, 2), "variant": "download-exp"})
    for index, o in model.objects.items():
        if o.kind == "record":
            sub = next(s for s in (0x7F, 0xFE, 0xFF, 0x20) if s not in o.members)
            attempt("missing-sub", (index, sub), lambda: sdo.upload(index, sub), {"kind": "missing-sub", "mux": (index, sub), "variant": "upload"})
            attempt("missing-sub", (index, sub), lambda: sdo.download(index, sub, b"12345"), {"kind": "missing-sub", "mux": (index, sub), "variant": "download"})
            break
    mux = (next(iter(model.objects)), 0)
    attempt("block-download", mux, lambda: sdo.open(mux[0], mux[1], "wb", size=10, block_transfer=True),
            {"kind": "block-download", "mux": mux, "variant": "open"})
    h.rig.close()


# ----------------------------------------------------------------------------- (b) client side decoding
def client_codes(ctx, desc):
    from canopen.sdo.exceptions import SdoAbortedError
    rng = random.Random(repr(("c06b", desc["cs"])))
    codes = [0] + [1 << k for k in range(32)] + [(1 << k) - 1 for k in range(1, 33)] + DOCUMENTED
    codes += [rng.getrandbits(32) for _ in range(desc["random_codes"])]
    mux = (0x2000 + R.DOMAIN, 0)
    steps = [("exp_ul", 0), ("seg_ul", 0), ("seg_ul", 1), ("seg_ul", 3), ("exp_dl", 0), ("seg_dl", 0), ("seg_dl", 1), ("seg_dl", 2),
             ("seg_dl", 3), ("blk_dl", 0), ("blk_dl", 1), ("blk_dl", 2), ("blk_ul", 0), ("blk_ul", 2), ("blk_ul", 4)]
    rig = rigs.ClientRig(node_id=7, od=gen.typed_od(rpdos=(), tpdos=()), timeout=0.05, blk_sizes=[2])
    cls = stream_class()
    for i, code in enumerate(codes):
        kind, k = steps[i % len(steps)] if i >= len(steps) * 4 else steps[(i // 4) % len(steps)]
        data = payload({"exp": 3, "seg": 20, "blk": 20}[kind[:3]], i)
        if kind.endswith("ul"):
            rig.server.store[mux] = data
        rig.server.state = "idle"

        def act(frame, code=code):
            rig.server.state = "idle"       # the server really ends the transfer
            return [frame.replace(data=struct.pack("<BHBL", 0x80, mux[0], mux[1], code))]
        rig.bus.fault = faults.OneShot(lambda f: f.src == "refserver" and f.can_id == rig.tx and not f.injected, k, act)
        mark = len(rig.bus.log)
        exc = None
        old = cls.blksize
        cls.blksize = 2
        try:
            if kind in ("exp_ul", "seg_ul"):
                rig.sdo.upload(*mux)
            elif kind in ("exp_dl", "seg_dl"):
                rig.sdo.download(*mux, data)
            elif kind == "blk_dl":
                with rig.sdo.open(*mux, "wb", size=len(data), block_transfer=True) as fp:
                    fp.write(data)
            else:
                with rig.sdo.open(*mux, "rb", block_transfer=True) as fp:
                    fp.read()
        except Exception as e:  # noqa: BLE001
            exc = e
        finally:
            cls.blksize = old
        fired = rig.bus.fault.fired
        rig_hit_ts = rig.bus.fault.hit.ts if fired else None
        rig.bus.fault = None
        case = {"sub-check": "client", "kind": kind, "step": k, "code": code}
        if not fired:
            ctx.inconc("abort injection point not reached", case)
            continue
        ctx.count("client_codes_compared")
        cclass = "zero" if code == 0 else "documented" if code in DOCUMENTED else "pow2" if code & (code - 1) == 0 else "other"
        ctx.case(("client", kind, k, cclass))
        frames = list(rig.bus.log)[mark:]
        wire_codes = [struct.unpack_from("<L", f.data, 4)[0] for f in frames if f.can_id == rig.tx and f.data[0] == 0x80]
        trace = [f.brief() for f in frames[:24]]
        if not isinstance(exc, SdoAbortedError):
            ctx.violation(f"abort-not-raised:{kind}:{k}", f"server aborted with {code:#010x} at step {k} of {kind}, client call ended in {exc!r}", case, trace)
        elif exc.code != code:
            ctx.violation(f"abort-code-mismatch:{kind}:{k}", f"injected {code:#010x}, SdoAbortedError.code = {exc.code:#010x}, "
                          f"abort codes delivered to the client during the call {[hex(c) for c in wire_codes]}", case, trace)
        # the transfer is over once the server aborted it: the client must not go on talking
        hit = rig_hit_ts
        later = [f for f in frames if f.src == "master" and f.ts > hit]
        if later:
            ctx.violation(f"client-continues-after-abort:{kind}:{k}", f"after the server's abort the client still sent {[f.data.hex() for f in later]}", case, trace)
        if len(ctx.samples) < 8 and i % 41 == 0:
            ctx.sample({"case": case, "raised": repr(exc), "wire": trace[:8]})
    rig.close()


def locked_table(ctx, rng):
    """The application changes the access type of an array's element declaration while the node is in service (a table
    that is locked after commissioning): members that are not listed one by one follow the declaration of member 1 at
    the time of the request, also those that have been served before."""
    from canmon.ref.sdo_client import RefSdoClient  # noqa: F401 - the rig builds one
    dt = rng.choice([R.UNSIGNED8, R.UNSIGNED16, R.INTEGER32])
    width = R.width(dt) // 8
    members = [gen.variable("Number of entries", 0x2400, 0, R.UNSIGNED8, "ro", default=16),
               gen.variable("Element", 0x2400, 1, dt, "rw")]
    od = gen.typed_od(rpdos=(), tpdos=(), extra=[gen.record("Table", 0x2400, members, array=True)])
    rig = rigs.ServerRig(od, 5)
    write_log = []
    rig.node.add_write_callback(lambda **kw: write_log.append((kw["index"], kw["subindex"], bytes(kw["data"]))))
    c = rig.client
    subs = [1] + rng.sample(range(2, 17), 3)
    served = subs[:rng.randint(1, len(subs))]           # members that have been read and written before the change
    first = {}
    for sub in served:
        first[sub] = bytes(rng.getrandbits(8) for _ in range(width))
        if c.download(0x2400, sub, first[sub])[0] != "ok" or c.upload(0x2400, sub)[:2] != ("ok", first[sub]):
            ctx.inconc("locked-table: set-up transfer failed", {"sub": sub})
            rig.close()
            return
    for access, kind in (("ro", "write-ro"), ("const", "write-ro"), ("wo", "read-wo"), ("rw", None)):
        od[0x2400][1].access_type = access
        for sub in subs:
            mux = (0x2400, sub)
            case = {"sub-check": "server", "kind": kind or "allowed", "scenario": "locked-table", "index": 0x2400, "sub": sub,
                    "type": R.NAMES[dt], "access": access, "served_before": sub in served}
            data = bytes(rng.getrandbits(8) for _ in range(width))
            store, nlog = copy.deepcopy(rig.node.data_store), len(write_log)
            variant = "locked-table:" + ("served-before" if sub in served else "fresh-member")
            ctx.count("locked_table_requests")
            if kind == "write-ro":
                r = c.download(*mux, data, mode=rng.choice(["expedited", "segmented"]))
                ctx.count("refusals_judged")
                ctx.case(("server", kind, variant, access))
                if r[0] != "abort":
                    ctx.violation(f"not-refused:{kind}:{variant}", f"write to a member of a table declared {access} was not refused: {r}", case, rig.wire(10))
                elif r[1] not in ACCEPT[kind]:
                    ctx.violation(f"wrong-abort-code:{kind}:{variant}", f"answered {r[1]:#010x}", case, rig.wire(10))
                if rig.node.data_store != store:
                    ctx.violation(f"refused-write-changed-store:{kind}:locked-table", f"data_store changed: {store.get(0x2400)} -> {rig.node.data_store.get(0x2400)}", case)
                if len(write_log) != nlog:
                    ctx.violation(f"refused-write-called-callback:{kind}:locked-table", f"write callback told {write_log[nlog:]}", case)
            elif kind == "read-wo":
                r = c.upload(*mux)
                ctx.count("refusals_judged")
                ctx.case(("server", kind, variant, access))
                if r[0] != "abort":
                    ctx.violation(f"not-refused:{kind}:{variant}", f"read of a member of a table declared wo was not refused: {r}", case, rig.wire(10))
                elif r[1] not in ACCEPT[kind]:
                    ctx.violation(f"wrong-abort-code:{kind}:{variant}", f"answered {r[1]:#010x}", case, rig.wire(10))
            else:
                r = c.download(*mux, data)
                if r[0] != "ok" or c.upload(*mux)[:2] != ("ok", data):
                    ctx.violation("allowed-transfer-refused:locked-table", f"table is rw again, download gave {r}", case, rig.wire(10))
    for mech, msg in c.violations:
        ctx.violation("wire:" + mech, msg, {"scenario": "locked-table"}, rig.wire(14))
    rig.close()


def run(ctx, desc):
    rigs.LogCapture()
    if desc["kind"] == "client":
        client_codes(ctx, desc)
        return
    oracles.install_codec(ctx, prefix="ambient_codec")
    rng = random.Random(repr(("c06a", desc["cs"])))
    for _ in range(desc["ods"]):
        model = gen.random_model(rng, n_objects=14)
        h = SrvHarness(ctx, model)
        server_refusals(ctx, h, rng)
        h.rig.close()
        real_client_refusals(ctx, model, rng)
        locked_table(ctx, rng)
    ctx.sample({"sub-check": "server", "example_od": [vm.brief() for _, vm in list(model.variables())[:4]]})


def replay(ctx, case):
    ctx.case(("replay",))
    ctx.inconc("C06 witnesses are replayed by re-running the shard with the same seed (histories are stateful)", case)
