"""Ambient mode: run files of the repository's own test suite in-process with the
passive, record-only contracts attached (guidance: "run the repository's own tests
with the contracts on").  A contract that fires there is either too strict or a
defect the tests do not assert; nothing else about the tests is judged (their
scripted peers deliberately send non-conformant frames).
"""
from __future__ import annotations

import contextlib
import io
import os


def run_tests(ctx, files, label="ambient"):
    import pytest
    repo = os.environ.get("CANMON_REPO", "/repo")
    paths = [os.path.join(repo, f) for f in files if os.path.exists(os.path.join(repo, f))]
    if not paths:
        ctx.add(label + ".skipped_no_tests", 1)
        return 0

    class Plugin:
        def __init__(self):
            self.passed = self.failed = 0

        def pytest_runtest_logreport(self, report):
            if report.when == "call":
                if report.passed:
                    self.passed += 1
                elif report.failed:
                    self.failed += 1
    plug = Plugin()
    cwd = os.getcwd()
    buf = io.StringIO()
    try:
        os.chdir(repo)
        with contextlib.redirect_stdout(buf), contextlib.redirect_stderr(buf):
            pytest.main(["-q", "-p", "no:cacheprovider", "-x", "--no-header", "--rootdir", repo, *paths], plugins=[plug])
    finally:
        os.chdir(cwd)
    ctx.add(label + ".repo_tests_passed", plug.passed)
    ctx.add(label + ".repo_tests_failed", plug.failed)
    for _ in range(plug.passed + plug.failed):
        ctx.case((label, "repo-test"), nontrivial=False)
    return plug.passed + plug.failed
