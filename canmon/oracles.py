"""Reusable record-only contracts (see contracts.py) judged by the reference models.

They are installed by the property that they decide (C04: codec, C05: PDO bit
fields) and additionally, as passive monitors, by other properties whose
workloads happen to drive the same functions.
"""
from __future__ import annotations

import struct

from canmon import contracts
from canmon.ref import codec as R
from canmon.ref import pdo_bits as PB


def _is_plain_int(v):
    return isinstance(v, int) and not isinstance(v, bool)


def install_codec(ctx, prefix="codec"):
    """Contracts on ODVariable.encode_raw / decode_raw / __len__ (C04)."""
    from canopen.objectdictionary import ODVariable

    def post_encode(self, args, kwargs, result, exc, old):
        if not args:
            return
        v, dt = args[0], self.data_type
        if isinstance(v, (bytes, bytearray)):
            return
        name = R.NAMES.get(dt, hex(dt) if isinstance(dt, int) else str(dt))
        case = {"op": "encode_raw", "type": name, "value": v}
        if dt in R.INTEGERS and _is_plain_int(v):
            ctx.count(prefix + ".encode_int")
            if R.in_range(dt, v):
                if exc is not None:
                    ctx.violation(f"encode-in-range-rejected:{name}", f"encode_raw({v}) raised {exc!r}", case)
                elif bytes(result) != R.encode(dt, v):
                    ctx.violation(f"encode-wrong-bytes:{name}",
                                  f"encode_raw({v}) = {bytes(result).hex()} expected {R.encode(dt, v).hex()}", case)
            else:
                if exc is None:
                    ctx.violation(f"encode-out-of-range-accepted:{name}",
                                  f"encode_raw({v}) returned {bytes(result).hex()} instead of raising "
                                  f"(range {R.int_range(dt)})", case)
        elif dt == R.BOOLEAN and (isinstance(v, bool) or v in (0, 1)):
            ctx.count(prefix + ".encode_bool")
            if exc is not None or bytes(result) != R.encode(dt, v):
                ctx.violation("encode-wrong-bytes:BOOLEAN", f"encode_raw({v!r}) -> {result!r} / {exc!r}", case)
        elif dt in R.REALS and isinstance(v, float):
            ctx.count(prefix + ".encode_real")
            try:
                want = R.encode(dt, v)
            except (OverflowError, struct.error):
                want = None
            if want is None:
                if exc is None:
                    ctx.violation(f"encode-out-of-range-accepted:{name}", f"encode_raw({v!r}) returned {result!r}", case)
            elif exc is not None:
                ctx.violation(f"encode-in-range-rejected:{name}", f"encode_raw({v!r}) raised {exc!r}", case)
            elif bytes(result) != want:
                ctx.violation(f"encode-wrong-bytes:{name}", f"encode_raw({v!r}) = {bytes(result).hex()} expected {want.hex()}", case)
        elif dt in R.STRINGS and isinstance(v, str):
            ctx.count(prefix + ".encode_str")
            try:
                want = R.encode(dt, v)
            except UnicodeError:
                want = None
            if want is None:
                if exc is None:
                    ctx.violation(f"encode-unencodable-accepted:{name}", f"encode_raw({v!r}) returned {result!r}", case)
            elif exc is not None:
                ctx.violation(f"encode-in-range-rejected:{name}", f"encode_raw({v!r}) raised {exc!r}", case)
            elif bytes(result) != want:
                ctx.violation(f"encode-wrong-bytes:{name}", f"encode_raw({v!r}) = {bytes(result).hex()} expected {want.hex()}", case)

    def post_decode(self, args, kwargs, result, exc, old):
        if not args or not isinstance(args[0], (bytes, bytearray)):
            return
        data, dt = (old if old is not None else bytes(args[0])), self.data_type
        name = R.NAMES.get(dt, hex(dt) if isinstance(dt, int) else str(dt))
        case = {"op": "decode_raw", "type": name, "data": data}
        if old is not None and bytes(args[0]) != old:
            ctx.violation(f"decode-mutates-input:{name}", f"decode_raw changed the caller's buffer from {old.hex()} to {bytes(args[0]).hex()}", case)
        if dt in R.NUMERIC or dt == R.BOOLEAN:
            ctx.count(prefix + ".decode_num")
            right = len(data) * 8 == R.width(dt)
            if not right:
                if exc is None:
                    ctx.violation(f"decode-wrong-length-accepted:{name}",
                                  f"decode_raw({data.hex()}) ({len(data)} bytes) returned {result!r}", case)
                return
            if exc is not None:
                ctx.violation(f"decode-right-length-rejected:{name}", f"decode_raw({data.hex()}) raised {exc!r}", case)
                return
            want = R.decode(dt, data)
            if dt in R.REALS:
                ok = isinstance(result, float) and R.same_float(result, want)
            elif dt == R.BOOLEAN:
                ok = bool(result) == want
            else:
                ok = _is_plain_int(result) and result == want
            if not ok:
                ctx.violation(f"decode-wrong-value:{name}", f"decode_raw({data.hex()}) = {result!r} expected {want!r}", case)
        elif dt in R.STRINGS:
            try:
                want = R.decode(dt, data)
            except UnicodeError:
                return
            if want.endswith("\x00"):
                return
            ctx.count(prefix + ".decode_str")
            if exc is not None or result != want:
                ctx.violation(f"decode-wrong-value:{name}", f"decode_raw({data.hex()}) = {result!r}/{exc!r} expected {want!r}", case)

    def post_len(self, args, kwargs, result, exc, old):
        dt = self.data_type
        if dt in R.NUMERIC or dt == R.BOOLEAN:
            ctx.count(prefix + ".len")
            if exc is not None or result != R.width(dt):
                ctx.violation(f"len-wrong:{R.NAMES[dt]}", f"len(var) = {result!r}/{exc!r} expected {R.width(dt)}",
                              {"op": "len", "type": R.NAMES[dt]})

    return [contracts.install(ODVariable, "encode_raw", post_encode),
            contracts.install(ODVariable, "decode_raw", post_decode,
                              pre=lambda self, *a, **k: bytes(a[0]) if a and isinstance(a[0], bytearray) else None),
            contracts.install(ODVariable, "__len__", post_len)]


# ------------------------------------------------------------------------- PDO bit fields
def pdo_field_info(var):
    dt = var.od.data_type
    return {"type": R.NAMES.get(dt, str(dt)), "dt": dt, "offset": var.offset, "length": var.length}


def pdo_mechanism(op, dt, offset, length, value_class="any"):
    """Discrete mechanism tuple for PDO bit-field findings (DESIGN.md C05)."""
    if dt in R.SIGNED:
        tcls = "signed"
    elif dt in R.UNSIGNED:
        tcls = "unsigned"
    elif dt == R.BOOLEAN:
        tcls = "bool"
    elif dt in R.REALS:
        tcls = "real"
    else:
        tcls = "other"
    full = R.width(dt) if (dt in R.NUMERIC or dt == R.BOOLEAN) else None
    aligned = "aligned" if offset % 8 == 0 else "unaligned"
    sub = "partial" if (full is not None and length != full) else "full"
    return f"pdo-{op}:{tcls}:{aligned}:{sub}:{value_class}"


def install_pdo_bits(ctx, prefix="pdo_bits", judge=None):
    """Contracts on PdoVariable.get_data / set_data with an OLD frame snapshot (C05)."""
    from canopen.pdo.base import PdoVariable

    def field_ok(self):
        dt = self.od.data_type
        if self.pdo_parent is None or self.offset is None:
            return False
        if not (dt in R.NUMERIC or dt == R.BOOLEAN):
            return False
        if self.length < 1 or self.offset + self.length > 8 * len(self.pdo_parent.data):
            return False
        if judge is not None and not judge(self):
            return False
        return True

    def pre(self, *a, **k):
        if self.pdo_parent is None:
            return None
        return bytes(self.pdo_parent.data)

    def post_get(self, args, kwargs, result, exc, old):
        if old is None or not field_ok(self):
            return
        ctx.count(prefix + ".get")
        dt = self.od.data_type
        raw = PB.read_field(old, self.offset, self.length)
        case = dict(pdo_field_info(self), frame=old, op="get_data")
        if dt in R.REALS and self.length != R.width(dt):
            return
        want = PB.field_to_typed_bytes(raw, dt, self.length)
        vclass = "neg" if (dt in R.SIGNED and raw >> (self.length - 1)) else "nonneg"
        if dt in R.SIGNED and raw == 1 << (self.length - 1):
            vclass = "most-negative"
        if exc is not None:
            ctx.violation(pdo_mechanism("read-raises", dt, self.offset, self.length, type(exc).__name__),
                          f"get_data raised {exc!r} for field {case}", case)
        elif bytes(result) != want:
            ctx.violation(pdo_mechanism("read", dt, self.offset, self.length, vclass),
                          f"get_data = {bytes(result).hex()} expected {want.hex()} "
                          f"(field bits {raw:#x}, frame {old.hex()}, offset {self.offset}, length {self.length}, {R.NAMES[dt]})", case)
        if bytes(self.pdo_parent.data) != old:
            ctx.violation("pdo-read-modifies-frame", f"frame changed by a read: {old.hex()} -> {bytes(self.pdo_parent.data).hex()}", case)

    def post_set(self, args, kwargs, result, exc, old):
        if old is None or not field_ok(self) or not args:
            return
        data = bytes(args[0])
        dt = self.od.data_type
        if len(data) * 8 != R.width(dt):
            return
        ctx.count(prefix + ".set")
        value_bits = int.from_bytes(data, "little") & ((1 << self.length) - 1)
        typed = R.decode(dt, data) if dt in R.INTEGERS else None
        vclass = "any"
        if dt in R.SIGNED:
            vclass = "neg" if typed < 0 else "nonneg"
        case = dict(pdo_field_info(self), frame=old, op="set_data", data=data)
        new = bytes(self.pdo_parent.data)
        want = PB.write_field(old, self.offset, self.length, value_bits)
        if exc is not None:
            ctx.violation(pdo_mechanism("write-raises", dt, self.offset, self.length, type(exc).__name__),
                          f"set_data({data.hex()}) raised {exc!r}; field {case}", case)
        elif new != want:
            ctx.violation(pdo_mechanism("write", dt, self.offset, self.length, vclass),
                          f"set_data({data.hex()}) turned frame {old.hex()} into {new.hex()} expected {want.hex()} "
                          f"(offset {self.offset}, length {self.length}, {R.NAMES[dt]})", case)

    return [contracts.install(PdoVariable, "get_data", post_get, pre),
            contracts.install(PdoVariable, "set_data", post_set, pre)]


def install_pdo_structure(ctx, prefix="pdo_structure"):
    """Structural invariant of a PdoMap, evaluated whenever one of its (re)configuration methods returns *or raises*
    (the "invariant at a hook" shape): the variables lie back to back from bit 0, ``length`` is their sum and the frame
    buffer has ceil(length / 8) bytes.  A map that a failed read() or add_variable() leaves behind must still be one."""
    from canopen.pdo.base import PdoMap

    def post(self, args, kwargs, result, exc, old, name="?"):
        ctx.count(prefix + ".evaluated")
        total, problems = 0, []
        for i, var in enumerate(self.map):
            if var.offset != total:
                problems.append(f"variable {i} at offset {var.offset}, expected {total}")
                break
            total += var.length
        if not problems and self.length != total:
            problems.append(f"length attribute {self.length}, variables sum to {total}")
        # (an emptied map keeps the old buffer until the first variable is added again: clear() is the first half of a
        # re-mapping, not judged)
        if not problems and self.map and len(self.data) != (total + 7) // 8:
            problems.append(f"{len(self.data)} data bytes for {total} mapped bits")
        if problems:
            ctx.violation(f"pdo-map-structure:after-{name}{':raised' if exc is not None else ''}",
                          f"after {name}() {'raised ' + repr(exc) if exc is not None else 'returned'}: {problems[0]} "
                          f"(map of {len(self.map)} variables)", {"method": name, "raised": repr(exc) if exc else None})

    out = []
    for name in ("read", "add_variable"):
        out.append(contracts.install(PdoMap, name, lambda self, a, k, r, e, o, name=name: post(self, a, k, r, e, o, name)))
    return out
