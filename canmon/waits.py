"""Instrumented threading.Condition: lets the harness deliver an event only
after the waiter is really inside wait() (no lost-wakeup false alarms)."""
import threading


class SignallingCondition(threading.Condition):
    def __init__(self):
        super().__init__()
        self.waiting = threading.Event()
        self.waits = 0

    def reentered(self, n, timeout=1.0):
        """True once wait() has been entered more than ``n`` times (the waiter
        processed a wake-up and parked again)."""
        import time
        end = time.time() + timeout
        while time.time() < end:
            if self.waits > n and self.waiting.is_set():
                with self:
                    pass
                return True
            time.sleep(0.0005)
        return False

    # ---- schedule control at the object's own lock (an existing suspension point, so only interleavings the program can
    #      have are produced): a thread other than the designated waiter that is about to take the lock reports its
    #      arrival and is held there until the harness lets it go (or ``max`` seconds have passed)
    gate = None

    def __enter__(self):
        gate = self.gate
        if gate is not None and threading.get_ident() != gate.get("waiter") and not gate["go"].is_set():
            gate["arrived"].set()
            gate["go"].wait(gate.get("max", 20.0))
        return super().__enter__()

    # the mirror image: a thread other than the designated waiter that has just *released* the lock is held right there
    # (before whatever it does next) until the harness lets it go
    exit_gate = None

    def __exit__(self, *exc):
        res = super().__exit__(*exc)
        gate = self.exit_gate
        if gate is not None and gate.get("hold") == "waiter":
            # variant: it is the designated waiter that is held after it has left its critical section
            if threading.get_ident() == gate.get("waiter") and gate.get("armed") and not gate["go"].is_set():
                gate["left"].set()
                gate["go"].wait(gate.get("max", 20.0))
            return res
        if gate is not None and threading.get_ident() != gate.get("waiter") and not gate["go"].is_set():
            gate["left"].set()
            gate["go"].wait(gate.get("max", 20.0))
        return res

    def wait(self, timeout=None):
        self.waits += 1
        self.waiting.set()
        try:
            return super().wait(timeout)
        finally:
            self.waiting.clear()


def run_waiter(fn, cond, deliver, join_timeout=60.0, enter_timeout=30.0, grace=15.0, must_return=False):
    """Start fn() in a thread, wait until it blocks in cond.wait(), call deliver(), join.

    Returns (status, value): status in 'returned', 'raised', 'never-waited', 'hung', 'not-woken', 're-parked'
    (only with must_return=True: the delivered event is the matching one, the waiter saw it and waited again)."""
    box = {}

    def target():
        try:
            box["value"] = fn()
            box["status"] = "returned"
        except BaseException as exc:  # noqa: BLE001
            box["value"] = exc
            box["status"] = "raised"
    t = threading.Thread(target=target, daemon=True)
    t.start()
    if not cond.waiting.wait(enter_timeout):
        t.join(0.5)
        if t.is_alive():
            return "never-waited", None
        return box.get("status", "never-waited"), box.get("value")
    # the waiter holds the lock until wait() releases it; taking the lock once makes sure it is parked
    with cond:
        pass
    if deliver is not None:
        n = cond.waits
        deliver()
        # the delivered event was the one waited for: a waiter that looks at it and parks *again* has not returned on it
        # (logical criterion; a correct waiter never re-enters wait() after its matching event)
        if must_return:
            import time
            end = time.time() + grace
            while t.is_alive() and time.time() < end:
                if cond.waits > n and cond.waiting.is_set():
                    with cond:
                        pass
                    if t.is_alive() and cond.waiting.is_set():
                        t.join(join_timeout)
                        return "re-parked", box.get("value")
                time.sleep(0.001)
        # lost wake-up detection: the event was delivered, yet the waiter is still parked in the
        # same wait() call after a generous grace period (its own time-out is longer than that)
        t.join(grace)
        if t.is_alive() and cond.waiting.is_set() and cond.waits == n:
            with cond:
                cond.notify_all()
            t.join(join_timeout)
            return "not-woken", box.get("value")
    t.join(join_timeout)
    if t.is_alive():
        return "hung", None
    return box["status"], box["value"]


def run_waiters(fns, cond, deliver, join_timeout=60.0, enter_timeout=30.0, grace=15.0):
    """Several threads block in cond.wait(); deliver once all are parked; every one must come back.

    Returns a list of (status, value) in the order of ``fns``."""
    import time
    boxes = [{} for _ in fns]

    def target(fn, box):
        try:
            box["value"] = fn()
            box["status"] = "returned"
        except BaseException as exc:  # noqa: BLE001
            box["value"] = exc
            box["status"] = "raised"
    n0 = cond.waits
    threads = [threading.Thread(target=target, args=(fn, box), daemon=True) for fn, box in zip(fns, boxes)]
    for t in threads:
        t.start()
    end = time.time() + enter_timeout
    while cond.waits < n0 + len(fns) and time.time() < end:
        time.sleep(0.0005)
    if cond.waits < n0 + len(fns):
        return [("never-waited", None)] * len(fns)
    with cond:      # all waiters have released the lock inside wait()
        pass
    n1 = cond.waits
    deliver()
    out = []
    deadline = time.time() + grace
    for t in threads:
        t.join(max(0.0, deadline - time.time()))
    stuck = [t for t in threads if t.is_alive()]
    if stuck and cond.waits == n1:
        with cond:
            cond.notify_all()
    for t, box in zip(threads, boxes):
        was_stuck = t in stuck
        t.join(join_timeout)
        if t.is_alive():
            out.append(("hung", None))
        elif was_stuck and cond.waits == n1:
            out.append(("not-woken", box.get("value")))
        else:
            out.append((box["status"], box["value"]))
    return out


def arrival_race(cond, receive, wait_call, enter_timeout=30.0, join_timeout=60.0):
    """The schedule "a frame is being received at the very moment a wait begins": ``receive()`` runs in its own thread and
    is held where it takes the object's lock; then ``wait_call()`` starts in a second thread; once that one is parked in
    wait() the receiver is let go.  The frame is processed after the wait began, so the waiter must be handed it.

    Returns (status, value) of the waiter: 'returned' / 'raised' / 'hung' / 'never-waited' / 'receiver-never-arrived'."""
    gate = {"waiter": None, "arrived": threading.Event(), "go": threading.Event(), "max": 30.0}
    cond.gate = gate
    box = {}

    def waiter():
        gate["waiter"] = threading.get_ident()
        try:
            box["value"] = wait_call()
            box["status"] = "returned"
        except BaseException as exc:  # noqa: BLE001
            box["value"], box["status"] = exc, "raised"
    rx = threading.Thread(target=receive, daemon=True)
    rx.start()
    try:
        if not gate["arrived"].wait(enter_timeout):
            return "receiver-never-arrived", None
        n = cond.waits
        wt = threading.Thread(target=waiter, daemon=True)
        wt.start()
        import time
        end = time.time() + enter_timeout
        while time.time() < end and wt.is_alive() and not (cond.waits > n and cond.waiting.is_set()):
            time.sleep(0.0005)
        if wt.is_alive() and not (cond.waits > n and cond.waiting.is_set()):
            return "never-waited", None
        gate["go"].set()
        rx.join(join_timeout)
        wt.join(join_timeout)
        if wt.is_alive():
            return "hung", None
        return box.get("status", "hung"), box.get("value")
    finally:
        gate["go"].set()
        cond.gate = None
