"""Seeded generators of object dictionaries (built in code from the public
ObjectDictionary API) used by several properties."""
from __future__ import annotations

from canmon.ref import codec as R

U8, U16, U32 = R.UNSIGNED8, R.UNSIGNED16, R.UNSIGNED32


def od_module():
    from canopen import objectdictionary
    return objectdictionary


def variable(name, index, sub=0, dt=U32, access="rw", default=None, value=None, pdo=True):
    od = od_module()
    v = od.ODVariable(name, index, sub)
    v.data_type = dt
    v.access_type = access
    v.default = default
    v.value = value
    v.pdo_mappable = pdo
    return v


def record(name, index, members, array=False):
    od = od_module()
    rec = (od.ODArray if array else od.ODRecord)(name, index)
    for m in members:
        rec.add_member(m)
    return rec


def add_pdo_objects(d, kind, number, cob_default=None, subs=(1, 2, 3, 5, 6), n_map=8, defaults=None, map_as_array=False):
    """Add communication + mapping objects of RPDO/TPDO ``number`` (1-based)."""
    com = (0x1400 if kind == "rpdo" else 0x1800) + number - 1
    mp = (0x1600 if kind == "rpdo" else 0x1A00) + number - 1
    defaults = defaults or {}
    members = [variable("Highest sub-index supported", com, 0, U8, "const", default=max(subs))]
    names = {1: ("COB-ID", U32), 2: ("Transmission type", U8), 3: ("Inhibit time", U16),
             5: ("Event timer", U16), 6: ("SYNC start value", U8)}
    for s in subs:
        nm, dt = names[s]
        members.append(variable(nm, com, s, dt, "rw", default=defaults.get((com, s), cob_default if s == 1 else None)))
    d.add_object(record(f"{kind.upper()} {number} communication parameter", com, members))
    members = [variable("Number of mapped objects", mp, 0, U8, "rw", default=defaults.get((mp, 0)))]
    for s in range(1, n_map + 1):
        members.append(variable(f"Mapping entry {s}", mp, s, U32, "rw", default=defaults.get((mp, s))))
    d.add_object(record(f"{kind.upper()} {number} mapping parameter", mp, members, array=map_as_array))
    return com, mp


TYPE_INDEX_BASE = 0x2000


def typed_od(rpdos=(1,), tpdos=(1,), extra=None, heartbeat=False):
    """One mappable variable per fixed-size type at 0x2000+dt, a record with
    one member per type at 0x2100, optional PDO objects."""
    od = od_module()
    d = od.ObjectDictionary()
    for dt, name in R.NAMES.items():
        d.add_object(variable(f"V_{name}", TYPE_INDEX_BASE + dt, 0, dt))
    members = [variable("Highest sub-index", 0x2100, 0, U8, "const", default=len(R.NAMES))]
    for i, (dt, name) in enumerate(R.NAMES.items(), start=1):
        members.append(variable(f"M_{name}", 0x2100, i, dt))
    d.add_object(record("Typed record", 0x2100, members))
    for n in rpdos:
        add_pdo_objects(d, "rpdo", n)
    for n in tpdos:
        add_pdo_objects(d, "tpdo", n)
    if heartbeat:
        d.add_object(variable("Producer heartbeat time", 0x1017, 0, U16, "rw", default=0))
    for obj in extra or ():
        d.add_object(obj)
    return d


PDO_FIELD_TYPES = tuple(R.INTEGERS) + (R.BOOLEAN, R.REAL32, R.REAL64)


def random_layout(rng, force=None):
    """A PDO layout: list of (dt, length_bits) with total <= 64.

    ``force`` = (offset, dt, length) makes a field of that type start exactly at
    that bit offset (fillers are put in front of it)."""
    fields = []
    total = 0
    if force is not None:
        off, fdt, flen = force
        nbytes, nbits = divmod(off, 8)
        for size, dt in ((4, R.UNSIGNED32), (2, R.UNSIGNED16), (1, R.UNSIGNED8)):
            while nbytes >= size:
                fdt_fill = rng.choice([dt, {4: R.INTEGER32, 2: R.INTEGER16, 1: R.INTEGER8}[size]])
                fields.append((fdt_fill, size * 8))
                nbytes -= size
        if nbits:
            fields.append((rng.choice([R.UNSIGNED8, R.INTEGER8]), nbits))
        fields.append((fdt, flen))
        total = off + flen
    n_more = rng.randint(0, 8 - len(fields)) if len(fields) < 8 else 0
    for _ in range(n_more):
        dt = rng.choice(PDO_FIELD_TYPES)
        if dt == R.BOOLEAN:
            ln = 1
        elif dt in (R.INTEGER8, R.UNSIGNED8) and rng.random() < 0.6:
            ln = rng.randint(1, 8)
        else:
            ln = R.width(dt)
        if total + ln > 64:
            continue
        fields.append((dt, ln))
        total += ln
    if not fields:
        fields.append((R.UNSIGNED8, 8))
    return fields


# ----------------------------------------------------------------------------- random OD models
from canmon.ref.od_model import ObjM, OdM, VarM  # noqa: E402

ACCESS = ("rw", "ro", "wo", "const", "rw", "ro", "rwr", "rww")     # rwr / rww: read-write on process input / output (CiA 306)
NAME_WORDS = ("Speed", "Position", "Torque", "Mode", "Status", "Control", "Limit", "Gain", "Temp", "Voltage",
              "Current", "Offset", "Scale", "Count", "Flag", "Config", "Serial", "Name", "Blob", "Time")


def random_value(rng, dt, maxlen=24):
    """A typed value for data type ``dt`` (None is never returned)."""
    if dt in R.INTEGERS:
        lo, hi = R.int_range(dt)
        return rng.choice([lo, hi, 0, 1, hi >> 1, rng.randint(lo, hi), rng.randint(lo, hi) >> rng.randint(0, R.INTEGERS[dt] - 1)])
    if dt == R.BOOLEAN:
        return rng.choice([0, 1])
    if dt == R.REAL32:
        import struct
        return struct.unpack("<f", struct.pack("<f", rng.choice([0.0, 1.5, -2.25, 1e10, rng.uniform(-1e4, 1e4)])))[0]
    if dt == R.REAL64:
        return rng.choice([0.0, -0.5, 3.141592653589793, 1e-300, rng.uniform(-1e9, 1e9)])
    n = rng.choice([0, 1, 3, 4, 5, 7, 8, rng.randint(0, maxlen)])
    if dt == R.VISIBLE_STRING:
        s = "".join(chr(rng.randint(33, 126)) for _ in range(n))
        return s
    if dt == R.UNICODE_STRING:
        return "".join(chr(rng.choice([rng.randint(33, 126), rng.randint(0xA1, 0x24F), rng.randint(0x3041, 0x3096)])) for _ in range(n))
    return bytes(rng.getrandbits(8) for _ in range(n))


def random_model(rng, n_objects=12, types=None, access=ACCESS, with_values=True, index_ranges=((0x2000, 0x5FFF),),
                 max_members=6, unique_names=True):
    types = list(types or R.ALL_TYPES)
    m = OdM()
    used_names = set()

    def name(prefix=""):
        for _ in range(100):
            nm = (prefix + rng.choice(NAME_WORDS) + " " + rng.choice(NAME_WORDS) + f" {rng.randint(0, 999)}").strip()
            if nm not in used_names or not unique_names:
                used_names.add(nm)
                return nm
        raise RuntimeError("name space exhausted")

    def var(index, sub, nm):
        dt = rng.choice(types)
        v = VarM(index, sub, nm, dt, access=rng.choice(access), pdo=rng.random() < 0.4)
        if with_values:
            r = rng.random()
            if r < 0.55:
                v.default = random_value(rng, dt)
            if rng.random() < 0.35:
                v.value = random_value(rng, dt)
        return v

    indices = set()
    while len(indices) < n_objects:
        lo, hi = rng.choice(index_ranges)
        indices.add(rng.randint(lo, hi))
    for index in sorted(indices):
        kind = rng.choice(["var", "var", "record", "array"])
        nm = name()
        if kind == "var":
            m.add(ObjM("var", index, nm, {0: var(index, 0, nm)}))
        else:
            k = rng.randint(1, max_members)
            members = {0: VarM(index, 0, "Highest sub-index supported" if kind == "record" else "Number of entries",
                               R.UNSIGNED8, "ro" if rng.random() < 0.7 else "const", default=k)}
            if kind == "record" and rng.random() < 0.12:
                # a record the dictionary knows by index only (no sub-entry described at all): every sub-index is missing
                obj = ObjM(kind, index, nm, {})
                obj.array_style = "empty"
                m.add(obj)
                continue
            if kind == "record":
                subs = sorted(rng.sample(range(1, 0x20), k))
                for s in subs:
                    members[s] = var(index, s, name())
                members[0].default = max(subs)
            else:
                tmpl = var(index, 1, name())
                members[1] = tmpl
                style = rng.choice(["listed", "listed", "templated", "count-only"])
                if style == "count-only":
                    # an array of which the dictionary only describes the count: every element is a missing sub-index
                    del members[1]
                    members[0].default = 0
                for s in range(2, k + 1) if style != "count-only" else ():
                    v = var(index, s, name())
                    v.dt = tmpl.dt
                    if style == "templated":
                        # described by its first element only: the other elements are generated from it and are as real
                        v = VarM(index, s, f"{tmpl.name}_{s:x}", tmpl.dt, tmpl.access, default=tmpl.default, pdo=tmpl.pdo)
                    else:
                        if v.default is not None:
                            v.default = random_value(rng, tmpl.dt)
                        if v.value is not None:
                            v.value = random_value(rng, tmpl.dt)
                    members[s] = v
                obj = ObjM(kind, index, nm, members)
                obj.array_style = style
                m.add(obj)
                continue
            m.add(ObjM(kind, index, nm, members))
    return m


def build_od(model, node_id=None):
    """Real canopen ObjectDictionary built in code from a model."""
    od = od_module()
    d = od.ObjectDictionary()
    for index in sorted(model.objects):
        o = model.objects[index]

        def mk(vm):
            v = od.ODVariable(vm.name, vm.index, vm.sub)
            v.data_type = vm.dt
            v.access_type = vm.access
            v.default = vm.default
            v.value = vm.value
            v.min, v.max = vm.lo, vm.hi
            v.pdo_mappable = vm.pdo
            v.factor = vm.factor
            v.unit = vm.unit
            v.description = vm.description
            v.storage_location = vm.storage
            v.relative = vm.relative
            return v
        if o.kind == "var":
            d.add_object(mk(o.var))
        else:
            c = (od.ODRecord if o.kind == "record" else od.ODArray)(o.name, index)
            c.storage_location = o.storage
            for sub in sorted(o.members):
                if getattr(o, "array_style", None) == "templated" and sub > 1:
                    continue                     # generated on access from the element at sub-index 1
                c.add_member(mk(o.members[sub]))
            d.add_object(c)
    d.node_id = node_id if node_id is not None else model.node_id
    d.bitrate = model.bitrate
    d.comments = model.comments
    for k, v in model.device_info.items():
        if k == "allowed_baudrates":
            d.device_information.allowed_baudrates = set(v)
        else:
            setattr(d.device_information, k, v)
    return d


# ----------------------------------------------------------------------------- models for EDS/DCF import-export (C08, C14)
EDS_NAME_CHARS = "ABCDEFGHIJKLMNOPQRSTUVWXYZabcdefghijklmnopqrstuvwxyz0123456789 _-%=()[]/+"


TIME_TYPES = (0x0C, 0x0D)


def eds_value(rng, dt):
    """Values that survive a text representation unambiguously."""
    if dt in TIME_TYPES:
        return rng.choice([0, 1, 0x10, 1234, rng.getrandbits(28), rng.getrandbits(47)])
    if dt in R.STRINGS:
        if rng.random() < 0.12:
            return ""                       # a zero-length value is a value, not "no value"
        n = rng.randint(1, 20)
        s = "".join(rng.choice("ABCDEFGHIJKLMNOPQRSTUVWXYZabcdefghijklmnopqrstuvwxyz0123456789 _-%=+") for _ in range(n)).strip()
        return s or "x"
    if dt in R.BLOBS:
        return bytes(rng.getrandbits(8) for _ in range(rng.choice([0, 1, 2, 5, 12, rng.randint(1, 12)])))
    return random_value(rng, dt)


def eds_model(rng, node_id=None, n_objects=14, dcf=False, index_ranges=((0x1002, 0x1FFF), (0x2000, 0x5FFF), (0x6000, 0x9FFF)),
              compact=True, relative=True, odd_width_limits=True):
    m = OdM()
    used = set()

    def name():
        for _ in range(200):
            k = rng.randint(3, 24)
            nm = "".join(rng.choice(EDS_NAME_CHARS) for _ in range(k)).strip()
            nm = " ".join(nm.split())
            if len(nm) >= 2 and nm not in used and not nm.startswith(("[", "#")) and nm[0].isalnum():
                used.add(nm)
                return nm
        raise RuntimeError("no name")

    def var(index, sub, nm=None, dt=None):
        if dt is None and rng.random() < 0.05:
            dt = rng.choice(TIME_TYPES)       # TIME_OF_DAY / TIME_DIFFERENCE: basic CiA 301 types too (values written as numbers)
        dt = dt if dt is not None else rng.choice(R.ALL_TYPES)
        v = VarM(index, sub, nm or name(), dt, access=rng.choice(ACCESS), pdo=rng.random() < 0.4)
        if rng.random() < 0.6:
            v.default = eds_value(rng, dt)
        if dcf and rng.random() < 0.5:
            v.value = eds_value(rng, dt)
        if dt in R.INTEGERS and rng.random() < 0.5 and (odd_width_limits or R.INTEGERS[dt] in (8, 16, 32, 64)):
            lo, hi = R.int_range(dt)
            a, b = sorted([rng.choice([lo, lo + 1, -1 if lo < 0 else 0, 0, rng.randint(lo, hi)]), rng.choice([hi, hi - 1, 1, rng.randint(lo, hi)])])
            if rng.random() < 0.8:
                v.lo = a
            if rng.random() < 0.8:
                v.hi = b
        if relative and node_id is not None and dt in (R.UNSIGNED32, R.UNSIGNED16) and rng.random() < 0.3:
            v.default_rel = rng.choice([0x180, 0x200, 0x600, 0x80, 1, 0, 0x1CE, 0x40D, 0xDE, 0xED, 13, 14, rng.randint(0, 0x7FF), rng.randint(0, 0x7FF)])
            v.default = v.default_rel + node_id
            v.relative = True
            if dcf and rng.random() < 0.4:
                v.value_rel = rng.choice([0x280, 0x300, 0x2DE, 0x3ED, 0xD, rng.randint(0, 0x7FF)])
                v.value = v.value_rel + node_id
        if dt in R.INTEGERS and rng.random() < 0.3:
            v.factor = rng.choice([0.5, 2.0, 0.001, 10.0, -1.5, 1 / 1024, 360 / 65536, 1234567.5, 3.3 / 4095, 1e-9, 16777217.0])
            v.unit = rng.choice(["mm", "rpm", "A", "deg C", ""])
        if rng.random() < 0.3:
            v.description = "Description of " + v.name
        if rng.random() < 0.2:
            v.storage = rng.choice(["RAM", "ROM", "PERSIST_COMM"])
        return v

    # mandatory objects
    m.add(ObjM("var", 0x1000, "Device type", {0: VarM(0x1000, 0, "Device type", R.UNSIGNED32, "ro", default=rng.getrandbits(32))}))
    m.add(ObjM("var", 0x1001, "Error register", {0: VarM(0x1001, 0, "Error register", R.UNSIGNED8, "ro", default=0, pdo=True)}))
    ident = {0: VarM(0x1018, 0, "Highest sub-index supported", R.UNSIGNED8, "const", default=4)}
    for s, nm in enumerate(["Vendor-ID", "Product code", "Revision number", "Serial number"], start=1):
        ident[s] = VarM(0x1018, s, nm, R.UNSIGNED32, "ro", default=rng.getrandbits(32))
    m.add(ObjM("record", 0x1018, "Identity object", ident))
    used.update(["Device type", "Error register", "Identity object"])
    indices = set()
    # the first and last index of every area (the EDS object lists are cut at these borders)
    borders = [i for lo, hi in index_ranges for i in (lo, hi)]
    indices.update(rng.sample(borders, min(len(borders), rng.randint(1, 3))))
    while len(indices) < n_objects:
        lo, hi = rng.choice(index_ranges)
        i = rng.randint(lo, hi)
        if i not in (0x1000, 0x1001, 0x1018):
            indices.add(i)
    for index in sorted(indices):
        kind = rng.choice(["var", "var", "record", "array", "compact" if compact else "array"])
        nm = name()
        if kind == "var":
            m.add(ObjM("var", index, nm, {0: var(index, 0, nm)}))
        elif kind == "compact":
            n = rng.randint(1, 12)
            tmpl = var(index, 1, nm, dt=rng.choice([d for d in R.ALL_TYPES if d not in R.BLOBS]))
            tmpl.lo = tmpl.hi = None
            tmpl.default_rel = tmpl.value_rel = None
            tmpl.relative = False
            if tmpl.value is not None and (tmpl.dt in (R.UNSIGNED32, R.UNSIGNED16) or rng.random() < 0.4):
                tmpl.value = None if rng.random() < 0.5 else eds_value(rng, tmpl.dt)
            tmpl.factor, tmpl.unit, tmpl.description, tmpl.storage = 1, "", "", None
            if tmpl.default is not None and tmpl.dt in (R.UNSIGNED32, R.UNSIGNED16):
                tmpl.default = eds_value(rng, tmpl.dt)
            members = {0: VarM(index, 0, "Number of entries", R.UNSIGNED8)}
            names = {s: name() for s in range(1, n + 1)} if rng.random() < 0.6 else None
            if names is None:
                # CiA 306 gives compact objects no per-member ParameterValue; only with a name list does the library document
                # "only the name and subindex varies", so only there is a ParameterValue of the compact section judged
                tmpl.value = None
            for s in range(1, n + 1):
                v = VarM(index, s, names[s] if names else nm, tmpl.dt, tmpl.access, default=tmpl.default, pdo=tmpl.pdo)
                v.value = tmpl.value          # a ParameterValue in the compact section describes every member, like DefaultValue
                members[s] = v
            o = ObjM("array", index, nm, members, compact=True, compact_names=names)
            m.add(o)
        else:
            k = rng.randint(1, 20)
            members = {0: VarM(index, 0, "Highest sub-index supported" if kind == "record" else "Number of entries", R.UNSIGNED8,
                               rng.choice(["ro", "const"]), default=k)}
            if kind == "record":
                subs = sorted(rng.sample(range(1, 0x40), k))
                for s in subs:
                    members[s] = var(index, s)
                members[0].default = max(subs)
            else:
                dt = rng.choice(R.ALL_TYPES)
                for s in range(1, k + 1):
                    members[s] = var(index, s, dt=dt)
            o = ObjM(kind, index, nm, members)
            if rng.random() < 0.2:
                o.storage = rng.choice(["RAM", "ROM"])
            m.add(o)
    m.node_id = node_id
    m.bitrate = rng.choice([None, 10000, 125000, 250000, 500000, 1000000]) if dcf else None
    m.comments = rng.choice(["", "Single line comment", "First line\nSecond line with = and %\nThird: line",
                             "\n".join(f"comment line number {i} of many" for i in range(1, rng.randint(10, 25)))])
    m.device_info = {
        "vendor_name": rng.choice(["ACME Drives", "canmon GmbH", "V=1 %"]), "vendor_number": rng.getrandbits(32),
        "product_name": rng.choice(["Servo 3000", "IO-Module"]), "product_number": rng.getrandbits(32),
        "revision_number": rng.getrandbits(32), "order_code": rng.choice(["ORD-1", "X 17"]),
        "simple_boot_up_master": rng.random() < 0.5, "simple_boot_up_slave": rng.random() < 0.5,
        "granularity": rng.choice([0, 1, 8, 16, 64]), "dynamic_channels_supported": rng.random() < 0.5,
        "group_messaging": rng.random() < 0.5, "nr_of_RXPDO": rng.randint(0, 8), "nr_of_TXPDO": rng.randint(0, 512),
        "LSS_supported": rng.random() < 0.5,
        "allowed_baudrates": set(rng.sample([10000, 20000, 50000, 125000, 250000, 500000, 800000, 1000000], rng.randint(1, 5))),
    }
    # device descriptions are often incomplete: an omitted entry stays None, the others are still taken from the file
    if rng.random() < 0.6:
        for key in rng.sample([k for k in m.device_info if k != "allowed_baudrates"], rng.randint(1, 4)):
            m.device_info[key] = None
    return m
