"""Seeded generators of object dictionaries (built in code from the public
ObjectDictionary API) used by several properties."""
from __future__ import annotations

from canmon.ref import codec as R

U8, U16, U32 = R.UNSIGNED8, R.UNSIGNED16, R.UNSIGNED32


def od_module():
    from canopen import objectdictionary
    return objectdictionary


def variable(name, index, sub=0, dt=U32, access="rw", default=None, value=None, pdo=True):
    od = od_module()
    v = od.ODVariable(name, index, sub)
    v.data_type = dt
    v.access_type = access
    v.default = default
    v.value = value
    v.pdo_mappable = pdo
    return v


def record(name, index, members, array=False):
    od = od_module()
    rec = (od.ODArray if array else od.ODRecord)(name, index)
    for m in members:
        rec.add_member(m)
    return rec


def add_pdo_objects(d, kind, number, cob_default=None, subs=(1, 2, 3, 5, 6), n_map=8, defaults=None):
    """Add communication + mapping objects of RPDO/TPDO ``number`` (1-based)."""
    com = (0x1400 if kind == "rpdo" else 0x1800) + number - 1
    mp = (0x1600 if kind == "rpdo" else 0x1A00) + number - 1
    defaults = defaults or {}
    members = [variable("Highest sub-index supported", com, 0, U8, "const", default=max(subs))]
    names = {1: ("COB-ID", U32), 2: ("Transmission type", U8), 3: ("Inhibit time", U16),
             5: ("Event timer", U16), 6: ("SYNC start value", U8)}
    for s in subs:
        nm, dt = names[s]
        members.append(variable(nm, com, s, dt, "rw", default=defaults.get((com, s), cob_default if s == 1 else None)))
    d.add_object(record(f"{kind.upper()} {number} communication parameter", com, members))
    members = [variable("Number of mapped objects", mp, 0, U8, "rw", default=defaults.get((mp, 0)))]
    for s in range(1, n_map + 1):
        members.append(variable(f"Mapping entry {s}", mp, s, U32, "rw", default=defaults.get((mp, s))))
    d.add_object(record(f"{kind.upper()} {number} mapping parameter", mp, members))
    return com, mp


TYPE_INDEX_BASE = 0x2000


def typed_od(rpdos=(1,), tpdos=(1,), extra=None, heartbeat=False):
    """One mappable variable per fixed-size type at 0x2000+dt, a record with
    one member per type at 0x2100, optional PDO objects."""
    od = od_module()
    d = od.ObjectDictionary()
    for dt, name in R.NAMES.items():
        d.add_object(variable(f"V_{name}", TYPE_INDEX_BASE + dt, 0, dt))
    members = [variable("Highest sub-index", 0x2100, 0, U8, "const", default=len(R.NAMES))]
    for i, (dt, name) in enumerate(R.NAMES.items(), start=1):
        members.append(variable(f"M_{name}", 0x2100, i, dt))
    d.add_object(record("Typed record", 0x2100, members))
    for n in rpdos:
        add_pdo_objects(d, "rpdo", n)
    for n in tpdos:
        add_pdo_objects(d, "tpdo", n)
    if heartbeat:
        d.add_object(variable("Producer heartbeat time", 0x1017, 0, U16, "rw", default=0))
    for obj in extra or ():
        d.add_object(obj)
    return d


PDO_FIELD_TYPES = tuple(R.INTEGERS) + (R.BOOLEAN, R.REAL32, R.REAL64)


def random_layout(rng, force=None):
    """A PDO layout: list of (dt, length_bits) with total <= 64.

    ``force`` = (offset, dt, length) makes a field of that type start exactly at
    that bit offset (fillers are put in front of it)."""
    fields = []
    total = 0
    if force is not None:
        off, fdt, flen = force
        nbytes, nbits = divmod(off, 8)
        for size, dt in ((4, R.UNSIGNED32), (2, R.UNSIGNED16), (1, R.UNSIGNED8)):
            while nbytes >= size:
                fdt_fill = rng.choice([dt, {4: R.INTEGER32, 2: R.INTEGER16, 1: R.INTEGER8}[size]])
                fields.append((fdt_fill, size * 8))
                nbytes -= size
        if nbits:
            fields.append((rng.choice([R.UNSIGNED8, R.INTEGER8]), nbits))
        fields.append((fdt, flen))
        total = off + flen
    n_more = rng.randint(0, 8 - len(fields)) if len(fields) < 8 else 0
    for _ in range(n_more):
        dt = rng.choice(PDO_FIELD_TYPES)
        if dt == R.BOOLEAN:
            ln = 1
        elif dt in (R.INTEGER8, R.UNSIGNED8) and rng.random() < 0.6:
            ln = rng.randint(1, 8)
        else:
            ln = R.width(dt)
        if total + ln > 64:
            continue
        fields.append((dt, ln))
        total += ln
    if not fields:
        fields.append((R.UNSIGNED8, 8))
    return fields


# ----------------------------------------------------------------------------- random OD models
from canmon.ref.od_model import ObjM, OdM, VarM  # noqa: E402

ACCESS = ("rw", "ro", "wo", "const")
NAME_WORDS = ("Speed", "Position", "Torque", "Mode", "Status", "Control", "Limit", "Gain", "Temp", "Voltage",
              "Current", "Offset", "Scale", "Count", "Flag", "Config", "Serial", "Name", "Blob", "Time")


def random_value(rng, dt, maxlen=24):
    """A typed value for data type ``dt`` (None is never returned)."""
    if dt in R.INTEGERS:
        lo, hi = R.int_range(dt)
        return rng.choice([lo, hi, 0, 1, hi >> 1, rng.randint(lo, hi), rng.randint(lo, hi) >> rng.randint(0, R.INTEGERS[dt] - 1)])
    if dt == R.BOOLEAN:
        return rng.choice([0, 1])
    if dt == R.REAL32:
        import struct
        return struct.unpack("<f", struct.pack("<f", rng.choice([0.0, 1.5, -2.25, 1e10, rng.uniform(-1e4, 1e4)])))[0]
    if dt == R.REAL64:
        return rng.choice([0.0, -0.5, 3.141592653589793, 1e-300, rng.uniform(-1e9, 1e9)])
    n = rng.choice([0, 1, 3, 4, 5, 7, 8, rng.randint(0, maxlen)])
    if dt == R.VISIBLE_STRING:
        s = "".join(chr(rng.randint(33, 126)) for _ in range(n))
        return s
    if dt == R.UNICODE_STRING:
        return "".join(chr(rng.choice([rng.randint(33, 126), rng.randint(0xA1, 0x24F), rng.randint(0x3041, 0x3096)])) for _ in range(n))
    return bytes(rng.getrandbits(8) for _ in range(n))


def random_model(rng, n_objects=12, types=None, access=ACCESS, with_values=True, index_ranges=((0x2000, 0x5FFF),),
                 max_members=6, unique_names=True):
    types = list(types or R.ALL_TYPES)
    m = OdM()
    used_names = set()

    def name(prefix=""):
        for _ in range(100):
            nm = (prefix + rng.choice(NAME_WORDS) + " " + rng.choice(NAME_WORDS) + f" {rng.randint(0, 999)}").strip()
            if nm not in used_names or not unique_names:
                used_names.add(nm)
                return nm
        raise RuntimeError("name space exhausted")

    def var(index, sub, nm):
        dt = rng.choice(types)
        v = VarM(index, sub, nm, dt, access=rng.choice(access), pdo=rng.random() < 0.4)
        if with_values:
            r = rng.random()
            if r < 0.55:
                v.default = random_value(rng, dt)
            if rng.random() < 0.35:
                v.value = random_value(rng, dt)
        return v

    indices = set()
    while len(indices) < n_objects:
        lo, hi = rng.choice(index_ranges)
        indices.add(rng.randint(lo, hi))
    for index in sorted(indices):
        kind = rng.choice(["var", "var", "record", "array"])
        nm = name()
        if kind == "var":
            m.add(ObjM("var", index, nm, {0: var(index, 0, nm)}))
        else:
            k = rng.randint(1, max_members)
            members = {0: VarM(index, 0, "Highest sub-index supported" if kind == "record" else "Number of entries",
                               R.UNSIGNED8, "ro" if rng.random() < 0.7 else "const", default=k)}
            if kind == "record":
                subs = sorted(rng.sample(range(1, 0x20), k))
                for s in subs:
                    members[s] = var(index, s, name())
                members[0].default = max(subs)
            else:
                tmpl = var(index, 1, name())
                members[1] = tmpl
                for s in range(2, k + 1):
                    v = var(index, s, name())
                    v.dt = tmpl.dt
                    if v.default is not None:
                        v.default = random_value(rng, tmpl.dt)
                    if v.value is not None:
                        v.value = random_value(rng, tmpl.dt)
                    members[s] = v
            m.add(ObjM(kind, index, nm, members))
    return m


def build_od(model, node_id=None):
    """Real canopen ObjectDictionary built in code from a model."""
    od = od_module()
    d = od.ObjectDictionary()
    for index in sorted(model.objects):
        o = model.objects[index]

        def mk(vm):
            v = od.ODVariable(vm.name, vm.index, vm.sub)
            v.data_type = vm.dt
            v.access_type = vm.access
            v.default = vm.default
            v.value = vm.value
            v.min, v.max = vm.lo, vm.hi
            v.pdo_mappable = vm.pdo
            v.factor = vm.factor
            v.unit = vm.unit
            v.description = vm.description
            v.storage_location = vm.storage
            v.relative = vm.relative
            return v
        if o.kind == "var":
            d.add_object(mk(o.var))
        else:
            c = (od.ODRecord if o.kind == "record" else od.ODArray)(o.name, index)
            c.storage_location = o.storage
            for sub in sorted(o.members):
                c.add_member(mk(o.members[sub]))
            d.add_object(c)
    d.node_id = node_id if node_id is not None else model.node_id
    d.bitrate = model.bitrate
    d.comments = model.comments
    for k, v in model.device_info.items():
        if k == "allowed_baudrates":
            d.device_information.allowed_baudrates = set(v)
        else:
            setattr(d.device_information, k, v)
    return d
