"""Seeded generators of object dictionaries (built in code from the public
ObjectDictionary API) used by several properties."""
from __future__ import annotations

from canmon.ref import codec as R

U8, U16, U32 = R.UNSIGNED8, R.UNSIGNED16, R.UNSIGNED32


def od_module():
    from canopen import objectdictionary
    return objectdictionary


def variable(name, index, sub=0, dt=U32, access="rw", default=None, value=None, pdo=True):
    od = od_module()
    v = od.ODVariable(name, index, sub)
    v.data_type = dt
    v.access_type = access
    v.default = default
    v.value = value
    v.pdo_mappable = pdo
    return v


def record(name, index, members, array=False):
    od = od_module()
    rec = (od.ODArray if array else od.ODRecord)(name, index)
    for m in members:
        rec.add_member(m)
    return rec


def add_pdo_objects(d, kind, number, cob_default=None, subs=(1, 2, 3, 5, 6), n_map=8, defaults=None):
    """Add communication + mapping objects of RPDO/TPDO ``number`` (1-based)."""
    com = (0x1400 if kind == "rpdo" else 0x1800) + number - 1
    mp = (0x1600 if kind == "rpdo" else 0x1A00) + number - 1
    defaults = defaults or {}
    members = [variable("Highest sub-index supported", com, 0, U8, "const", default=max(subs))]
    names = {1: ("COB-ID", U32), 2: ("Transmission type", U8), 3: ("Inhibit time", U16),
             5: ("Event timer", U16), 6: ("SYNC start value", U8)}
    for s in subs:
        nm, dt = names[s]
        members.append(variable(nm, com, s, dt, "rw", default=defaults.get((com, s), cob_default if s == 1 else None)))
    d.add_object(record(f"{kind.upper()} {number} communication parameter", com, members))
    members = [variable("Number of mapped objects", mp, 0, U8, "rw", default=defaults.get((mp, 0)))]
    for s in range(1, n_map + 1):
        members.append(variable(f"Mapping entry {s}", mp, s, U32, "rw", default=defaults.get((mp, s))))
    d.add_object(record(f"{kind.upper()} {number} mapping parameter", mp, members))
    return com, mp


TYPE_INDEX_BASE = 0x2000


def typed_od(rpdos=(1,), tpdos=(1,), extra=None, heartbeat=False):
    """One mappable variable per fixed-size type at 0x2000+dt, a record with
    one member per type at 0x2100, optional PDO objects."""
    od = od_module()
    d = od.ObjectDictionary()
    for dt, name in R.NAMES.items():
        d.add_object(variable(f"V_{name}", TYPE_INDEX_BASE + dt, 0, dt))
    members = [variable("Highest sub-index", 0x2100, 0, U8, "const", default=len(R.NAMES))]
    for i, (dt, name) in enumerate(R.NAMES.items(), start=1):
        members.append(variable(f"M_{name}", 0x2100, i, dt))
    d.add_object(record("Typed record", 0x2100, members))
    for n in rpdos:
        add_pdo_objects(d, "rpdo", n)
    for n in tpdos:
        add_pdo_objects(d, "tpdo", n)
    if heartbeat:
        d.add_object(variable("Producer heartbeat time", 0x1017, 0, U16, "rw", default=0))
    for obj in extra or ():
        d.add_object(obj)
    return d


PDO_FIELD_TYPES = tuple(R.INTEGERS) + (R.BOOLEAN, R.REAL32, R.REAL64)


def random_layout(rng, force=None):
    """A PDO layout: list of (dt, length_bits) with total <= 64.

    ``force`` = (offset, dt, length) makes a field of that type start exactly at
    that bit offset (fillers are put in front of it)."""
    fields = []
    total = 0
    if force is not None:
        off, fdt, flen = force
        nbytes, nbits = divmod(off, 8)
        for size, dt in ((4, R.UNSIGNED32), (2, R.UNSIGNED16), (1, R.UNSIGNED8)):
            while nbytes >= size:
                fdt_fill = rng.choice([dt, {4: R.INTEGER32, 2: R.INTEGER16, 1: R.INTEGER8}[size]])
                fields.append((fdt_fill, size * 8))
                nbytes -= size
        if nbits:
            fields.append((rng.choice([R.UNSIGNED8, R.INTEGER8]), nbits))
        fields.append((fdt, flen))
        total = off + flen
    n_more = rng.randint(0, 8 - len(fields)) if len(fields) < 8 else 0
    for _ in range(n_more):
        dt = rng.choice(PDO_FIELD_TYPES)
        if dt == R.BOOLEAN:
            ln = 1
        elif dt in (R.INTEGER8, R.UNSIGNED8) and rng.random() < 0.6:
            ln = rng.randint(1, 8)
        else:
            ln = R.width(dt)
        if total + ln > 64:
            continue
        fields.append((dt, ln))
        total += ln
    if not fields:
        fields.append((R.UNSIGNED8, 8))
    return fields
