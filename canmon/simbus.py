"""Simulated CAN bus: the tap, the fault plan and the schedule source.

One ``SimBus`` connects *stations*.  A ``NetStation`` is the duck-typed ``bus``
object handed to ``canopen.Network(bus=...)`` (``send``, ``send_periodic``,
``shutdown``, ``channel_info``); an ``ActorStation`` hosts a reference model.
No station receives its own frames (like python-can's virtual bus).

Delivery modes
  inline    delivered synchronously in the sending thread, bus-FIFO (a frame
            sent from inside a delivery is queued behind the current one), so a
            response is in the requester's queue before its send() returns.
  threaded  one dispatcher thread per station, FIFO per station, seeded delays.
  pumped    frames wait until ``pump()``.

The bus never decides anything about canopen; it records what was emitted
(``log``), lets a *fault plan* rewrite what is delivered, and feeds *taps*.
"""
from __future__ import annotations

import collections
import queue
import random
import threading
import time

import can


class Frame:
    __slots__ = ("ts", "src", "can_id", "ext", "rtr", "data", "thread", "injected", "dlc", "wall")

    def __init__(self, ts, src, can_id, ext, rtr, data, thread=None, injected=False, dlc=None):
        self.ts = ts
        self.src = src
        self.can_id = can_id
        self.ext = ext
        self.rtr = rtr
        self.data = bytes(data)
        self.thread = thread
        self.injected = injected
        self.dlc = len(self.data) if dlc is None else dlc
        self.wall = time.time()            # wall clock when the frame entered the bus (never a verdict, only triage of time-outs)

    def replace(self, **kw):
        f = Frame(self.ts, self.src, self.can_id, self.ext, self.rtr, self.data, self.thread, True, self.dlc)
        for k, v in kw.items():
            setattr(f, k, bytes(v) if k == "data" else v)
        if "data" in kw and "dlc" not in kw:
            f.dlc = len(f.data)
        return f

    def brief(self):
        flags = ("x" if self.ext else "") + ("R" if self.rtr else "") + ("!" if self.injected else "")
        return f"{self.ts:.3f} {self.src}>{self.can_id:X}{flags}[{self.data.hex()}]"

    def __repr__(self):
        return "<" + self.brief() + ">"


class SimBus:
    def __init__(self, mode="inline", seed=0, max_delay=0.0, log_limit=200000):
        assert mode in ("inline", "threaded", "pumped")
        self.mode = mode
        self.rng = random.Random(seed)
        self.max_delay = max_delay
        self._inflight = 0             # threaded mode: frames queued or being delivered (see quiesce)
        self._inflight_lock = threading.Lock()
        self.min_delay = 0.0           # threaded mode: every delivery takes at least this long (a slow peer / gateway)
        self.lock = threading.RLock()
        self.stations = []
        self.log = collections.deque(maxlen=log_limit)
        self.taps = []
        self.fault = None              # callable(frame) -> list[Frame] | None (None = deliver as is)
        self._clock = 0
        self._tls = threading.local()
        self._pending = collections.deque()
        self.delivered = collections.deque(maxlen=log_limit)   # (ts, dst, frame) after delivery returned
        self.closed = False

    # ------------------------------------------------------------------ stations
    def net_station(self, name, **kw):
        st = NetStation(self, name, **kw)
        self.stations.append(st)
        return st

    def actor_station(self, name, actor=None):
        st = ActorStation(self, name, actor)
        self.stations.append(st)
        return st

    def now(self):
        with self.lock:
            self._clock += 1
            return self._clock / 1000.0

    # ------------------------------------------------------------------ transmit
    def transmit(self, src, can_id, data, ext=False, rtr=False, dlc=None):
        with self.lock:
            frame = Frame(self.now(), src.name, can_id, ext, rtr, data, threading.get_ident(), False, dlc)
            self.log.append(frame)
            for tap in self.taps:
                tap(frame)
            out = [frame]
            if self.fault is not None:
                res = self.fault(frame)
                if res is not None:
                    out = list(res)
                    for f in out:
                        if f is not frame:
                            self.log.append(f)      # what was really delivered instead / in addition
        for f in out:
            # a fault plan may emit frames on behalf of another station (f.src names it)
            origin = src if f.src == src.name else self._by_name(f.src)
            self._route(origin, f)
        return frame

    def _by_name(self, name):
        for st in self.stations:
            if st.name == name:
                return st
        return None

    def inject(self, can_id, data, src="inject", ext=False, rtr=False, exclude=None):
        """Deliver a frame that no station emitted (disturbance)."""
        with self.lock:
            frame = Frame(self.now(), src, can_id, ext, rtr, data, threading.get_ident(), True)
            self.log.append(frame)
        self._route(exclude if exclude is not None else self._by_name(src), frame)
        return frame

    def _route(self, src, frame):
        if self.mode == "inline":
            q = getattr(self._tls, "q", None)
            if q is not None:
                q.append((src, frame))
                return
            q = self._tls.q = collections.deque([(src, frame)])
            try:
                while q:
                    s, f = q.popleft()
                    for st in list(self.stations):
                        if st is not s and not st.detached:
                            st.deliver(f)
                            self.delivered.append((f.ts, st.name, f))
            finally:
                self._tls.q = None
        elif self.mode == "pumped":
            with self.lock:
                self._pending.append((src, frame))
        else:
            for st in list(self.stations):
                if st is not src and not st.detached:
                    st.enqueue(frame)

    def pump(self, n=None):
        """Deliver pending frames (pumped mode); returns number delivered."""
        k = 0
        while self._pending and (n is None or k < n):
            with self.lock:
                if not self._pending:
                    break
                s, f = self._pending.popleft()
            for st in list(self.stations):
                if st is not s and not st.detached:
                    st.deliver(f)
                    self.delivered.append((f.ts, st.name, f))
            k += 1
        return k

    def tick(self):
        """Virtual period: every live cyclic task transmits its current frame once."""
        n = 0
        for st in list(self.stations):
            for task in list(getattr(st, "tasks", [])):
                task.fire()
                n += 1
        return n

    def quiesce(self, timeout=10.0):
        """Threaded mode: wait until every station queue is drained and idle."""
        if self.mode != "threaded":
            return True
        end = time.time() + timeout
        while time.time() < end:
            with self._inflight_lock:
                if self._inflight == 0:
                    return True
            time.sleep(0.0005)
        return False

    def close(self):
        self.closed = True
        for st in self.stations:
            st.close()

    def frames(self, can_id=None, src=None):
        return [f for f in self.log if (can_id is None or f.can_id == can_id) and (src is None or f.src == src)]


class _StationBase:
    def __init__(self, bus, name):
        self.simbus = bus
        self.name = name
        self.detached = False
        self._q = None
        self._thread = None
        self._busy = False
        self.delivering_since = None

    # threaded-mode machinery
    def enqueue(self, frame):
        if self._q is None:
            self._q = queue.Queue()
            self._thread = threading.Thread(target=self._loop, name=f"simbus-{self.name}", daemon=True)
            self._thread.start()
        # counted before it is queued and un-counted only after its delivery (including every frame that delivery sent)
        # has returned: "nothing in flight" is then a fact, not a race between an emptied queue and a busy flag
        with self.simbus._inflight_lock:
            self.simbus._inflight += 1
        self._q.put(frame)

    def _loop(self):
        bus = self.simbus
        rng = random.Random(bus.rng.random())
        while True:
            frame = self._q.get()
            if frame is None:
                return
            self._busy = True
            try:
                if bus.min_delay:
                    time.sleep(bus.min_delay)
                if bus.max_delay:
                    d = rng.random()
                    if d < 0.5:
                        time.sleep(0)
                    else:
                        time.sleep(bus.max_delay * rng.random())
                if not self.detached:
                    self.delivering_since = time.time()       # (a delivery that never returns = a receive path that blocks)
                    self.deliver(frame)
                    self.delivering_since = None
                    bus.delivered.append((frame.ts, self.name, frame, time.time()))
            finally:
                self._busy = False
                with bus._inflight_lock:
                    bus._inflight -= 1

    def idle(self):
        return self._q is None or (self._q.empty() and not self._busy)

    def close(self):
        if self._q is not None:
            self._q.put(None)


class NetStation(_StationBase):
    """The ``bus`` object of one canopen.Network."""

    channel_info = "canmon simulated bus"

    def __init__(self, bus, name, via="listener", modifiable=True, fragile=False, send_fail=None, zero_ts=False):
        super().__init__(bus, name)
        self.queued_send = False        # see send()
        self._txq = None
        self.zero_ts = zero_ts          # an interface without time stamps: every received frame is stamped 0.0
        self.network = None
        self.via = via                  # 'listener' -> MessageListener.on_message_received ; 'notify' -> Network.notify ;
                                        # 'notify-reuse' -> Network.notify from one receive buffer that the "driver" overwrites
                                        # as soon as notify() has returned (C-style back ends read every frame into the same memory)
        self._rxbuf = bytearray()
        self.modifiable = modifiable    # flavour of cyclic tasks
        self.fragile = fragile          # models a driver that is not thread safe
        self.send_fail = send_fail      # callable(msg) -> exception or None
        self.tasks = []
        self.task_log = []              # every task ever created
        self.sent_msgs = collections.deque(maxlen=4096)   # the real can.Message objects
        self.shutdown_calls = 0
        self.live_at_shutdown = None
        self.rx_errors = []             # exceptions escaping notify in 'notify' mode
        self._reg = [None, None, None, None]
        self.overlaps = 0
        self._in_send = 0

    def attach(self, network):
        self.network = network
        return self

    def close(self):
        super().close()
        if self._txq is not None:
            self._txq.put(None)

    # ---- python-can BusABC surface used by canopen
    def _flush_loop(self):
        while True:
            msg = self._txq.get()
            if msg is None:
                return
            time.sleep(0.0003)
            # the driver looks at the message object only now: what the sender did to it after send() returned is sent
            self.simbus.transmit(self, msg.arbitration_id, bytes(msg.data), msg.is_extended_id, msg.is_remote_frame, dlc=msg.dlc)

    def send(self, msg, timeout=None):
        if self.send_fail is not None:
            exc = self.send_fail(msg)
            if exc is not None:
                raise exc
        self.sent_msgs.append(msg)
        if self.queued_send:
            # a driver with a transmit queue: send() returns at once, the frame goes out a little later from another thread
            if self._txq is None:
                self._txq = queue.Queue()
                threading.Thread(target=self._flush_loop, name=f"simbus-tx-{self.name}", daemon=True).start()
            self._txq.put(msg)
            return
        if self.fragile:
            # two-step frame assembly: overlapping sends mix their fields
            self._in_send += 1
            if self._in_send > 1:
                self.overlaps += 1
            self._reg[0] = msg.arbitration_id
            time.sleep(0.0001)
            self._reg[1] = bytes(msg.data)
            time.sleep(0.0001)
            self._reg[2] = msg.is_extended_id
            self._reg[3] = msg.is_remote_frame
            can_id, data, ext, rtr = self._reg
            self._in_send -= 1
        else:
            can_id, data, ext, rtr = msg.arbitration_id, bytes(msg.data), msg.is_extended_id, msg.is_remote_frame
        self.simbus.transmit(self, can_id, data, ext, rtr, dlc=msg.dlc)

    def send_periodic(self, msgs, period, duration=None, store_task=True, **kw):
        cls = (ModifiableCopyTask if self.modifiable == "copy" else RestartableTask if self.modifiable == "restartable"
               else ModifiableTask if self.modifiable else PlainTask)
        task = cls(self, msgs, period)
        self.tasks.append(task)
        self.task_log.append(task)
        return task

    def shutdown(self):
        self.shutdown_calls += 1
        if self.live_at_shutdown is None:
            self.live_at_shutdown = [t.describe() for t in self.tasks]
        for t in list(self.tasks):
            t.stop()

    def __bool__(self):
        return True

    # ---- reception
    def deliver(self, frame):
        net = self.network
        if net is None:
            return
        if self.via == "listener":
            msg = can.Message(timestamp=0.0 if self.zero_ts else frame.ts, arbitration_id=frame.can_id, is_extended_id=frame.ext,
                              is_remote_frame=frame.rtr, data=bytearray(frame.data) if not frame.rtr else None,
                              dlc=frame.dlc if frame.rtr else None, check=False)
            for listener in net.listeners:
                listener.on_message_received(msg)
        elif self.via == "notify-reuse":
            if frame.rtr:
                return
            buf = self._rxbuf
            buf[:] = frame.data
            try:
                net.notify(frame.can_id, buf, frame.ts)
            finally:
                for i in range(len(buf)):       # the next frame is read into the same memory
                    buf[i] ^= 0xA5
        else:
            if frame.rtr:
                return
            try:
                net.notify(frame.can_id, bytearray(frame.data), frame.ts)
            except Exception as exc:  # noqa: BLE001 - recorded for the oracle
                self.rx_errors.append((frame, exc))


class ActorStation(_StationBase):
    """Hosts a reference model: ``actor.on_frame(frame, station)``."""

    def __init__(self, bus, name, actor=None):
        super().__init__(bus, name)
        self.actor = actor
        self.received = collections.deque(maxlen=100000)

    def deliver(self, frame):
        self.received.append(frame)
        if self.actor is not None:
            self.actor.on_frame(frame, self)

    def send(self, can_id, data, ext=None, rtr=False):
        if ext is None:
            ext = can_id > 0x7FF
        return self.simbus.transmit(self, can_id, bytes(data), ext, rtr)


class _TaskBase:
    def __init__(self, station, msgs, period):
        self.station = station
        self.msg = msgs[0] if isinstance(msgs, (list, tuple)) else msgs
        self.period = period
        self.stopped = False
        self.fired = 0
        self.created_ts = station.simbus.now()

    def stop(self):
        self.stopped = True
        if self in self.station.tasks:
            self.station.tasks.remove(self)

    def current(self):
        raise NotImplementedError

    def describe(self):
        can_id, data, ext, rtr = self.current()
        return {"can_id": can_id, "data": bytes(data).hex(), "ext": bool(ext), "rtr": bool(rtr), "period": self.period}

    def fire(self):
        if self.stopped:
            return
        can_id, data, ext, rtr = self.current()
        self.fired += 1
        self.station.simbus.transmit(self.station, can_id, data, ext, rtr)


class ModifiableTask(_TaskBase):
    """Like python-can's thread based cyclic task: sends the message object it
    holds (by reference) every period; ``modify_data`` swaps the object."""

    def modify_data(self, msgs):
        msg = msgs[0] if isinstance(msgs, (list, tuple)) else msgs
        if msg.arbitration_id != self.msg.arbitration_id:
            raise ValueError("The arbitration ID of new cyclic messages cannot be changed")
        self.msg = msg

    def current(self):
        m = self.msg
        return m.arbitration_id, bytes(m.data), m.is_extended_id, m.is_remote_frame


class ModifiableCopyTask(PlainTask if False else _TaskBase):
    """Like socketcan's BCM task: the frame lives in the kernel; ``modify_data``
    replaces it, nothing else does."""

    def __init__(self, station, msgs, period):
        super().__init__(station, msgs, period)
        self._snap = self._copy(self.msg)

    @staticmethod
    def _copy(m):
        return (m.arbitration_id, bytes(m.data), m.is_extended_id, m.is_remote_frame)

    def modify_data(self, msgs):
        msg = msgs[0] if isinstance(msgs, (list, tuple)) else msgs
        if msg.arbitration_id != self._snap[0]:
            raise ValueError("The arbitration ID of new cyclic messages cannot be changed")
        self._snap = self._copy(msg)

    def current(self):
        return self._snap


class PlainTask(_TaskBase):
    """Like a hardware/BCM scheduler: the frame is copied when the task starts
    and cannot be changed; it has no ``modify_data``."""

    def __init__(self, station, msgs, period):
        super().__init__(station, msgs, period)
        m = self.msg
        self._snap = (m.arbitration_id, bytes(m.data), m.is_extended_id, m.is_remote_frame)

    def current(self):
        return self._snap


class RestartableTask(PlainTask):
    """A fixed-frame task that can be re-armed after stop() (python-can's RestartableCyclicTaskABC, e.g. the IXXAT
    back end): start() resumes transmitting the frame the task was created with."""

    def start(self):
        self.stopped = False
        if self not in self.station.tasks:
            self.station.tasks.append(self)


def make_network(bus, name, via="listener", **kw):
    """A canopen.Network attached to a new station of ``bus``."""
    import canopen
    st = bus.net_station(name, via=via, **kw)
    net = canopen.Network(bus=st)
    st.attach(net)
    return net, st
