#!/bin/sh
# setup_cmd: nothing to build (pure Python, stdlib-only framework); self-test the toolchain.
HERE="$(cd "$(dirname "$0")" && pwd)"
cd "$HERE" || exit 1
mkdir -p evidence .work
PYTHONPATH=/repo:"$HERE" /venv/bin/python -B -c "import canopen, can, canmon.runner, canmon.simbus; print('canmon setup ok; canopen from', canopen.__file__)"
